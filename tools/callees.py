"""list external callees of the functions of given modules: python3-vt tools/callees.py collisions,rrt"""
import sys, re
sys.path.insert(0,'/verif')
from mirsmt import mirdump
from mirsmt.mirparse import *
from mirsmt.symex import strip_generics, build_aliases
b,_=mirdump.load()
al=build_aliases(b)
mods=sys.argv[1].split(',')
seen={}
for k in b.keys():
    if not any(k.startswith(m) for m in mods): continue
    for bb in b[k].blocks.values():
        for s in bb:
            if isinstance(s, Call):
                f=s.func; g=strip_generics(f)
                if f in b.raw or g in b.raw or f in al or g in al: continue
                seen.setdefault(g,[]).append(k)
for g in sorted(seen): print(len(seen[g]), g[:230])
