"""Symbolic value domain of the MIR executor (all values are immutable)."""
import itertools
from fractions import Fraction
import z3

_fresh = itertools.count()
def fresh(prefix, sort='real'):
    n = f'{prefix}!{next(_fresh)}'
    return {'real': z3.Real, 'int': z3.Int, 'bool': z3.Bool}[sort](n)

# The f64 constant PI is read as the mathematical pi: one real symbol with tight rational bounds.
PI = z3.Real('pi')
PI_BOUNDS = [PI > z3.RealVal('3.14159265358979'), PI < z3.RealVal('3.1415926535898')]
PI_FLOAT = 3.141592653589793

def RV(x):
    """z3 rational NUMERAL for a python number / Fraction / decimal string"""
    if isinstance(x, Fraction): return z3.RealVal(f'{x.numerator}/{x.denominator}' if x.denominator != 1 else str(x.numerator))
    if isinstance(x, float): return RV(Fraction(x))
    if isinstance(x, str) and ('.' in x or 'e' in x.lower()) and '/' not in x: return RV(Fraction(x))
    return z3.RealVal(x)

# ---- boolean helpers with constant folding (python bools stay python bools) ----
def isz(x): return z3.is_expr(x)
def b_not(a):
    if isz(a):
        if z3.is_true(a): return False
        if z3.is_false(a): return True
        return z3.Not(a)
    return not a
def b_and(*xs):
    out = []
    for x in xs:
        if isz(x):
            if z3.is_true(x): continue
            if z3.is_false(x): return False
            out.append(x)
        elif not x: return False
    if not out: return True
    return out[0] if len(out) == 1 else z3.And(*out)
def b_or(*xs):
    out = []
    for x in xs:
        if isz(x):
            if z3.is_false(x): continue
            if z3.is_true(x): return True
            out.append(x)
        elif x: return True
    if not out: return False
    return out[0] if len(out) == 1 else z3.Or(*out)
def zb(x): return x if isz(x) else z3.BoolVal(bool(x))
def zi(x): return x if isz(x) else z3.IntVal(int(x))
def b_ite(c, a, b):
    """ite over python-or-z3 bools"""
    if not isz(c): return a if c else b
    if not isz(a) and not isz(b):
        if a == b: return a
        return c if a else z3.Not(c)
    a2, b2 = zb(a), zb(b)
    if a2.eq(b2): return a2
    return z3.If(c, a2, b2)
def i_ite(c, a, b):
    if not isz(c): return a if c else b
    if not isz(a) and not isz(b) and a == b: return a
    a2, b2 = zi(a), zi(b)
    if a2.eq(b2): return a2
    return z3.If(c, a2, b2)

class F:
    """f64 as an extended real: value v (Real), nan flag, inf in {-1,0,1} (value ignored when nan or inf != 0)."""
    __slots__ = ('v', 'nan', 'inf')
    def __init__(s, v, nan=False, inf=0):
        s.v = v if isz(v) else RV(v); s.nan = nan; s.inf = inf
    def poison(s): return b_or(s.nan, s.is_inf())
    def is_inf(s):
        if isz(s.inf): return s.inf != 0
        return s.inf != 0
    def finite(s): return b_not(s.poison())
    def __repr__(s): return f'F({s.v}{", nan=%s" % s.nan if s.nan is not False else ""}{", inf=%s" % s.inf if not (isinstance(s.inf, int) and s.inf == 0) else ""})'
def fconst(x): return F(RV(x))
F_NAN = lambda: F(RV(0), True, 0)
F_INF = lambda sign=1: F(RV(0), False, sign)

class Agg:
    """tuple / array / struct; items is a tuple"""
    __slots__ = ('items', 'tag')
    def __init__(s, items, tag=None): s.items = tuple(items); s.tag = tag
    def with_item(s, k, v):
        l = list(s.items); l[k] = v; return type(s)(l, s.tag)
    def __repr__(s): return f'Agg{list(s.items)}'
class Enum:
    __slots__ = ('disc', 'items', 'tag')
    def __init__(s, disc, items, tag=None): s.disc = disc; s.items = tuple(items); s.tag = tag
    def with_item(s, k, v):
        l = list(s.items)
        while len(l) <= k: l.append(None)
        l[k] = v; return Enum(s.disc, l, s.tag)
    def __repr__(s): return f'Enum({s.disc},{list(s.items)})'
def Some(x): return Enum(1, [x], 'Option')
def NONE(): return Enum(0, [], 'Option')
def Ok(x): return Enum(0, [x], 'Result')
def Err(x): return Enum(1, [x], 'Result')
UNIT = Agg([])

class RefV:
    __slots__ = ('frame', 'local', 'path')
    def __init__(s, frame, local, path=()): s.frame = frame; s.local = local; s.path = tuple(path)
    def __eq__(s, o): return isinstance(o, RefV) and (s.frame, s.local, s.path) == (o.frame, o.local, o.path)
    def __hash__(s): return hash((s.frame, s.local, s.path))
    def sub(s, *k): return RefV(s.frame, s.local, s.path + tuple(k))
    def __repr__(s): return f'Ref({s.frame},{s.local},{s.path})'
class RefIte:
    """a reference that is a or b depending on c (merged states holding different references); read-only"""
    __slots__ = ('c', 'a', 'b')
    def __init__(s, c, a, b): s.c, s.a, s.b = c, a, b
    def same(s, o): return isinstance(o, RefIte) and s.c.eq(o.c) and same(s.a, o.a) and same(s.b, o.b)
class Closure:
    __slots__ = ('name', 'items')
    def __init__(s, name, caps): s.name = name; s.items = tuple(caps)
    def with_item(s, k, v):
        l = list(s.items); l[k] = v; return Closure(s.name, l)
class FnPtr:
    __slots__ = ('name',)
    def __init__(s, name): s.name = name
class VecV:
    """Vec<T>: tuple of (guard, value); the vector denoted is the subsequence of entries whose guard holds."""
    __slots__ = ('ents',)
    def __init__(s, ents): s.ents = tuple(ents)
    @staticmethod
    def dense(vals): return VecV([(True, v) for v in vals])
    def is_dense(s): return all(g is True for g, _ in s.ents)
    @property
    def items(s): return tuple(v for _, v in s.ents)
    def with_item(s, k, v):
        l = list(s.ents); l[k] = (l[k][0], v); return VecV(l)
    def push(s, v, guard=True): return VecV(s.ents + ((guard, v),))
    def __repr__(s): return f'Vec{list(s.ents)}'
class IterV:
    """eagerly materialised iterator: ents like VecV (values may be RefV for by-reference iteration)"""
    __slots__ = ('ents', 'kind', 'endless')
    def __init__(s, ents, kind='iter'): s.ents = tuple(ents); s.kind = kind; s.endless = False      # endless: a finite prefix of a generator that never ends by itself
    def is_dense(s): return all(g is True for g, _ in s.ents)
class RangeV(Agg):
    pass
class BoxV(Agg):
    """Box/Arc/Rc: one item, Deref goes to item 0"""
    pass
class Opaque:
    """a value the harness treats as a token (oracle objects, strings, meshes...)"""
    def __init__(s, kind, name=None, data=None): s.kind = kind; s.name = name; s.data = data
    def __repr__(s): return f'Opaque({s.kind},{s.name})'
class StrV:
    __slots__ = ('s',)
    def __init__(s, x): s.s = x
    def __repr__(s): return f'Str({s.s!r})'

class Unmergeable(Exception): pass
CONFIG = {'merge_vec_lengths': True}   # False: states whose Vecs differ in length are kept apart instead of being merged into a guarded Vec

def same(a, b):
    """structural identity of two values"""
    if a is b: return True
    if isz(a) or isz(b):
        return isz(a) and isz(b) and a.eq(b)
    if type(a) is not type(b): return False
    if isinstance(a, F): return a.v.eq(b.v) and same(a.nan, b.nan) and same(a.inf, b.inf)
    if isinstance(a, (bool, int, str, float)): return a == b
    if isinstance(a, (Agg, Enum, Closure)):
        if isinstance(a, Enum) and not same(a.disc, b.disc): return False
        if isinstance(a, Closure) and a.name != b.name: return False
        return len(a.items) == len(b.items) and all(same(x, y) for x, y in zip(a.items, b.items))
    if isinstance(a, (VecV, IterV)):
        return len(a.ents) == len(b.ents) and all(same(g, h) and same(x, y) for (g, x), (h, y) in zip(a.ents, b.ents))
    if isinstance(a, RefV): return a == b
    if isinstance(a, RefIte): return a.same(b)
    if isinstance(a, StrV): return a.s == b.s
    if isinstance(a, FnPtr): return a.name == b.name
    if hasattr(a, 'same'): return a.same(b)
    if type(a) is Opaque: return a.kind == b.kind and a.name == b.name and a.name is not None and (a.data is b.data or a.data == b.data or (isinstance(a.data, tuple) and a.data and a.data[0] == 'ite'))
    return False

def ite(c, a, b):
    """value-level if-then-else; c is a z3 Bool"""
    if a is b: return a
    if a is None: return b
    if b is None: return a
    if isinstance(a, F) and isinstance(b, F):
        if same(a, b): return a
        return F(a.v if a.v.eq(b.v) else z3.If(c, a.v, b.v), b_ite(c, a.nan, b.nan), i_ite(c, a.inf, b.inf))
    pa, pb = isinstance(a, (bool, int)) and not isz(a), isinstance(b, (bool, int)) and not isz(b)
    if (pa or isz(a)) and (pb or isz(b)):
        if pa and pb and not isinstance(a, bool) and not isinstance(b, bool) and a != b and not CONFIG.get('merge_ints'):
            raise Unmergeable('concrete integers differ')      # loop indices / lengths: such states are kept apart (indices must stay concrete)
        ab = isinstance(a, bool) or (isz(a) and z3.is_bool(a))
        return b_ite(c, a, b) if ab else i_ite(c, a, b)
    if isinstance(a, (RefV, RefIte)) and isinstance(b, (RefV, RefIte)):
        if same(a, b): return a
        return RefIte(c, a, b)
    if type(a) is not type(b): raise Unmergeable(f'{type(a).__name__} vs {type(b).__name__}')
    if isinstance(a, RangeV) and not same(a, b): raise Unmergeable('loop counters differ')   # states in different iterations of a counted loop are kept apart
    if isinstance(a, Agg):
        if len(a.items) != len(b.items): raise Unmergeable('agg len')
        return type(a)([ite(c, x, y) for x, y in zip(a.items, b.items)], a.tag)
    if isinstance(a, Enum):
        la, lb = list(a.items), list(b.items)
        n = max(len(la), len(lb)); la += [None] * (n - len(la)); lb += [None] * (n - len(lb))
        return Enum(i_ite(c, a.disc, b.disc), [ite(c, x, y) for x, y in zip(la, lb)], a.tag or b.tag)
    if isinstance(a, Closure):
        if a.name != b.name: raise Unmergeable('closure')
        return Closure(a.name, [ite(c, x, y) for x, y in zip(a.items, b.items)])
    if isinstance(a, (VecV, IterV)):
        ea, eb = a.ents, b.ents; out = []
        if len(ea) != len(eb) and not CONFIG['merge_vec_lengths'] and isinstance(a, VecV): raise Unmergeable('vec length')
        for i in range(max(len(ea), len(eb))):
            if i < len(ea) and i < len(eb):
                out.append((b_ite(c, ea[i][0], eb[i][0]), ite(c, ea[i][1], eb[i][1])))
            elif i < len(ea): out.append((b_and(c, ea[i][0]), ea[i][1]))
            else: out.append((b_and(b_not(c), eb[i][0]), eb[i][1]))
        return VecV(out) if isinstance(a, VecV) else IterV(out, a.kind)
    if isinstance(a, (RefV, RefIte)) and isinstance(b, (RefV, RefIte)):
        if same(a, b): return a
        return RefIte(c, a, b)
    if same(a, b): return a
    if hasattr(a, 'ite'): return a.ite(c, b)
    if type(a) is Opaque and a.kind == b.kind and a.kind in ('mesh', 'pose', 'aabb', 'verts'):
        return Opaque(a.kind, f'ite({a.name},{b.name})', data=('ite', c, a, b))      # token chosen by a symbolic condition
    raise Unmergeable(f'{type(a).__name__}')

def ite_data(c, a, b):
    """ite for DATA values (not control state): differing concrete integers become a symbolic integer"""
    old = CONFIG.get('merge_ints'); CONFIG['merge_ints'] = True
    try: return ite(c, a, b)
    finally: CONFIG['merge_ints'] = old
