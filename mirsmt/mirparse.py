"""Parser for the text printed by rustc -Zunpretty=mir (the subset rs-opw-kinematics uses).
Bodies are parsed lazily; a statement that cannot be parsed becomes Unparsed and only
aborts a run (exit 2, inconclusive) if it is actually executed."""
import re
from dataclasses import dataclass, field

# ---------------- places / operands -----------------
@dataclass(frozen=True)
class Local: n: int
@dataclass(frozen=True)
class Deref: base: object
@dataclass(frozen=True)
class Field: base: object; idx: int; ty: str
@dataclass(frozen=True)
class Downcast: base: object; variant: str
@dataclass(frozen=True)
class Index: base: object; idx: object      # Local or int
@dataclass(frozen=True)
class Copy: place: object
@dataclass(frozen=True)
class Move: place: object
@dataclass(frozen=True)
class Const: text: str

def skip_balanced(s, i, open_='(', close=')'):
    """s[i] is open_; return index after the matching close (handles nested ()[]{}<> loosely)."""
    depth = 0
    pairs = {'(': ')', '[': ']', '{': '}'}
    stack = []
    j = i
    while j < len(s):
        ch = s[j]
        if ch == '"':
            j += 1
            while s[j] != '"':
                if s[j] == '\\': j += 1
                j += 1
        elif ch in pairs:
            stack.append(pairs[ch])
        elif stack and ch == stack[-1]:
            stack.pop()
            if not stack:
                return j + 1
        j += 1
    raise ValueError('unbalanced: ' + s[i:i+80])

def parse_place(s, i=0):
    if s[i] == '(':
        if s[i+1] == '*':
            inner, i = parse_place(s, i+2)
            assert s[i] == ')', s
            base, i = Deref(inner), i+1
        else:
            inner, i = parse_place(s, i+1)
            if s.startswith(' as ', i):
                j = s.index(')', i)
                base, i = Downcast(inner, s[i+4:j]), j+1
            elif s[i] == '.':
                m = re.match(r'\.(\d+): ', s[i:])
                fidx = int(m.group(1)); i += m.end()
                # type up to the matching ')'
                depth = 0; j = i
                while True:
                    ch = s[j]
                    if ch in '([{': depth += 1
                    elif ch in ')]}':
                        if depth == 0 and ch == ')': break
                        depth -= 1
                    j += 1
                base, i = Field(inner, fidx, s[i:j]), j+1
            else:
                raise ValueError('place? ' + s[i:i+40])
    else:
        m = re.match(r'_(\d+)', s[i:])
        if not m: raise ValueError('place? ' + s[i:i+40])
        base, i = Local(int(m.group(1))), i + m.end()
    while i < len(s) and s[i] == '[':
        m = re.match(r'\[_(\d+)\]', s[i:])
        if m:
            base, i = Index(base, Local(int(m.group(1)))), i + m.end(); continue
        m = re.match(r'\[(\d+) of (\d+)\]', s[i:])
        if m:
            base, i = Index(base, int(m.group(1))), i + m.end(); continue
        break
    return base, i

def split_top(s, sep=','):
    out, depth, cur, i = [], 0, '', 0
    while i < len(s):
        ch = s[i]
        if ch == '"':
            j = i+1
            while s[j] != '"':
                if s[j] == '\\': j += 1
                j += 1
            cur += s[i:j+1]; i = j+1; continue
        if ch in '([{': depth += 1
        elif ch in ')]}': depth -= 1
        elif ch == '<' and i+1 < len(s) and s[i+1] != ' ' and s[i+1] != '=': depth += 1
        elif ch == '>' and i > 0 and s[i-1] not in '-= ' and depth > 0: depth -= 1
        if ch == sep and depth == 0:
            out.append(cur.strip()); cur = ''
        else:
            cur += ch
        i += 1
    if cur.strip(): out.append(cur.strip())
    return out

def parse_operand(s):
    s = s.strip()
    if s.startswith('no_retag '): s = s[9:]
    if s.startswith('copy '):
        p, i = parse_place(s, 5); assert i == len(s), s; return Copy(p)
    if s.startswith('move '):
        p, i = parse_place(s, 5); assert i == len(s), s; return Move(p)
    if s.startswith('const '):
        return Const(s[6:])
    # a function item passed as a value is printed as its bare path (zero-sized constant)
    if re.match(r'^(<|[A-Za-z_][\w]*::)', s) and ' ' not in s.split('<')[0]: return Const('ZeroSized: ' + s)
    raise ValueError('operand? ' + s)

# ---------------- rvalues / statements -----------------
@dataclass
class Use: op: object
@dataclass
class Cast: op: object; ty: str; kind: str
@dataclass
class Ref: place: object; mut: bool
@dataclass
class BinOp: op: str; a: object; b: object
@dataclass
class UnOp: op: str; a: object
@dataclass
class Discr: place: object
@dataclass
class Aggregate: kind: str; name: str; fields: list; fnames: list = None
@dataclass
class Repeat: op: object; n: str
@dataclass
class Assign: place: object; rv: object
@dataclass
class Call: dest: object; func: str; args: list; target: object
@dataclass
class SwitchInt: op: object; targets: list; otherwise: object
@dataclass
class Goto: target: int
@dataclass
class Assert: cond: object; expected: bool; msg: str; target: int
@dataclass
class Return: pass
@dataclass
class Unreachable: pass
@dataclass
class Drop: place: object; target: int
@dataclass
class Nop: text: str
@dataclass
class Unparsed: text: str; err: str

BINOPS = {'Add','Sub','Mul','Div','Rem','Lt','Le','Gt','Ge','Eq','Ne','BitOr','BitAnd','BitXor','Shl','Shr',
          'AddWithOverflow','SubWithOverflow','MulWithOverflow','Offset','Cmp','AddUnchecked','SubUnchecked','MulUnchecked'}
UNOPS = {'Neg','Not','PtrMetadata'}

def parse_rvalue(s):
    s = s.strip()
    if s.startswith('no_retag '): s = s[9:]
    m = re.match(r'^(copy|move|const) ', s)
    if m:
        # possible cast:  OP as TY (Kind)
        mc = re.match(r'^(.*) as (.+) \(([A-Za-z]+(?:\(.*\))?)\)$', s)
        if mc and not s.startswith('const "'):
            try:
                return Cast(parse_operand(mc.group(1)), mc.group(2), mc.group(3))
            except Exception:
                pass
        return Use(parse_operand(s))
    if s.startswith('&raw const (fake) '): return Ref(parse_place(s, 18)[0], False)
    if s.startswith('&raw const '): return Ref(parse_place(s, 11)[0], False)
    if s.startswith('&raw mut '): return Ref(parse_place(s, 9)[0], True)
    if s.startswith('&mut '): return Ref(parse_place(s, 5)[0], True)
    if s.startswith('&'):
        t = s[1:]
        if t.startswith('fake shallow '): t = t[13:]
        return Ref(parse_place(t, 0)[0], False)
    if s.startswith('discriminant('):
        return Discr(parse_place(s, 13)[0])
    m = re.match(r'^([A-Za-z]+)\((.*)\)$', s)
    if m and m.group(1) in BINOPS:
        a, b = split_top(m.group(2)); return BinOp(m.group(1), parse_operand(a), parse_operand(b))
    if m and m.group(1) in UNOPS:
        return UnOp(m.group(1), parse_operand(m.group(2)))
    if s.startswith('['):
        inner = s[1:-1]
        parts = split_top(inner, ';')
        if len(parts) == 2 and re.match(r'^(copy|move|const) ', parts[0]):
            return Repeat(parse_operand(parts[0]), parts[1])
        return Aggregate('array', '', [parse_operand(x) for x in split_top(inner)])
    if s.startswith('('):
        inner = s[1:-1]
        return Aggregate('tuple', '', [parse_operand(x) for x in split_top(inner)])
    # struct / closure literal:  NAME { f: op, ... }   or   NAME(op, ..)   or  bare NAME (unit variant)
    m = re.match(r'^(.*?) \{ (.*) \}$', s)
    if m:
        fl = split_top(m.group(2))
        names, ops = [], []
        for f in fl:
            k, v = f.split(': ', 1); names.append(k); ops.append(parse_operand(v))
        return Aggregate('struct', m.group(1), ops, names)
    if s.endswith(')') and '(' in s:
        k = s.rindex('(', 0, len(s))
        # find the '(' matching the final ')'
        depth = 0
        for j in range(len(s)-1, -1, -1):
            if s[j] == ')': depth += 1
            elif s[j] == '(':
                depth -= 1
                if depth == 0: k = j; break
        return Aggregate('variant', s[:k], [parse_operand(x) for x in split_top(s[k+1:-1])])
    return Aggregate('variant', s, [])

def parse_stmt(line):
    s = line.strip()
    if s.endswith(';'): s = s[:-1]
    if s.startswith(('StorageLive', 'StorageDead', 'ConstEvalCounter', 'FakeRead', 'PlaceMention', 'AscribeUserType', 'Retag', 'nop', 'Coverage', 'BackwardIncompatibleDropHint')):
        return Nop(s)
    if s == 'return': return Return()
    if s == 'unreachable': return Unreachable()
    if s.startswith('resume') or s.startswith('unwind') : return Unreachable()
    m = re.match(r'^goto -> bb(\d+)$', s)
    if m: return Goto(int(m.group(1)))
    m = re.match(r'^switchInt\((.*)\) -> \[(.*)\]$', s)
    if m:
        targets, otherwise = [], None
        for t in m.group(2).split(', '):
            k, v = t.split(': ')
            if k == 'otherwise': otherwise = int(v[2:])
            else: targets.append((int(k), int(v[2:])))
        return SwitchInt(parse_operand(m.group(1)), targets, otherwise)
    m = re.match(r'^assert\((!?)(.*?), "(.*)"(?:, .*)?\) -> \[success: bb(\d+), unwind.*\]$', s)
    if m:
        return Assert(parse_operand(m.group(2)), m.group(1) != '!', m.group(3), int(m.group(4)))
    m = re.match(r'^drop\((.*)\) -> \[return: bb(\d+), unwind.*\]$', s)
    if m: return Drop(parse_place(m.group(1))[0], int(m.group(2)))
    # call terminator
    m = re.match(r'^(.*?) = (.*)\) -> (\[return: bb(\d+), unwind.*\]|unwind.*)$', s)
    if m and not re.match(r'^(copy |move |const |&)', m.group(2)):
        dest = parse_place(m.group(1))[0]
        body = m.group(2) + ')'
        # split func(args): find the '(' matching the final ')', ignoring parentheses inside string literals
        instr = [False] * len(body); j = 0
        while j < len(body):
            if body[j] == '"':
                k2 = j + 1
                while k2 < len(body) and body[k2] != '"':
                    if body[k2] == '\\': k2 += 1
                    k2 += 1
                for q in range(j, min(k2 + 1, len(body))): instr[q] = True
                j = k2 + 1
            else: j += 1
        depth = 0; k = None
        for j in range(len(body) - 1, -1, -1):
            if instr[j]: continue
            if body[j] == ')': depth += 1
            elif body[j] == '(':
                depth -= 1
                if depth == 0: k = j; break
        func = body[:k]; args = [parse_operand(a) for a in split_top(body[k+1:-1])]
        target = int(m.group(4)) if m.group(4) else None
        return Call(dest, func, args, target)
    m = re.match(r'^(.*?) = (.*)$', s)
    if m:
        return Assign(parse_place(m.group(1))[0], parse_rvalue(m.group(2)))
    raise ValueError('stmt? ' + s)

@dataclass
class Body:
    name: str; nargs: int; ret: str
    local_ty: dict = field(default_factory=dict)
    debug: dict = field(default_factory=dict)
    arg_names: dict = field(default_factory=dict)
    blocks: dict = field(default_factory=dict)   # n -> list of stmts (last = terminator)

def _const_header(ln):
    """'const NAME: TYPE = {' / 'const NAME: TYPE = const V;' -> (name, type, rest) splitting at the first ': ' outside <...>"""
    m = re.match(r'^(?:const|static) (?:mut )?', ln)
    if not m: return None
    i = m.end(); d = 0; j = i
    while j < len(ln):
        ch = ln[j]
        if ch == '<': d += 1
        elif ch == '>' and ln[j - 1] != '-': d -= 1
        elif ch == ':' and d == 0 and ln[j:j + 2] == ': ' and ln[j - 1] != ':' : break
        j += 1
    if j >= len(ln): return None
    name = ln[i:j]; rest = ln[j + 2:]
    k = rest.rfind(' = ')
    if k < 0: return None
    return name, rest[:k], rest[k + 3:]

def _parse_body(name, header, lines):
    hm = re.match(r'^fn (.*?)\((_1: .*|)\) -> (.*) \{$', header)
    if hm:
        args, ret = hm.group(2), hm.group(3)
        nargs = len(split_top(args)) if args else 0
    else:
        ch = _const_header(header)
        args, nargs, ret = '', 0, (ch[1] if ch else '?')
    b = Body(name, nargs, ret)
    for a in (split_top(args) if args else []):
        mm = re.match(r'^_(\d+): (.*)$', a); b.local_ty[int(mm.group(1))] = mm.group(2)
    i = 0
    while i < len(lines):
        s = lines[i].strip()
        mm = re.match(r'^let (?:mut )?_(\d+): (.*);$', s)
        if mm: b.local_ty[int(mm.group(1))] = mm.group(2)
        mm = re.match(r'^debug (\w+) => (.*);$', s)
        if mm:
            try:
                pl_ = parse_place(mm.group(2))[0]
                b.debug[mm.group(1)] = pl_
                if isinstance(getattr(pl_, 'n', None), int) and 1 <= pl_.n <= b.nargs: b.arg_names.setdefault(mm.group(1), pl_.n)     # parameters (a later `let` may shadow the name)
            except Exception: pass
        mm = re.match(r'^bb(\d+)( \(cleanup\))?: \{$', s)
        if mm:
            cur = int(mm.group(1)); cleanup = bool(mm.group(2)); stmts = []
            i += 1
            while lines[i].strip() != '}':
                t = lines[i].strip()
                if t and not cleanup:
                    try: stmts.append(parse_stmt(t))
                    except Exception as e: stmts.append(Unparsed(t, repr(e)))
                i += 1
            if not cleanup: b.blocks[cur] = stmts
        i += 1
    return b

class Bodies:
    """name -> Body, parsed on first access."""
    def __init__(self, text):
        self.raw = {}; self.cache = {}; self.simple = {}; self.ambiguous = set()
        lines = text.split('\n'); i = 0; n = len(lines); ctfe = {}
        while i < n:
            ln = lines[i]
            if ln.startswith(('const ', 'static ')) and ln.endswith(';'):
                ch = _const_header(ln)
                if ch and ch[2].startswith('const ') : self.simple[ch[0]] = ch[2][6:-1]
            if ln.startswith(('fn ', 'const ', 'static ')) and ln.endswith('{'):
                hm = re.match(r'^fn (.*?)\((_1: .*|)\) -> (.*) \{$', ln)
                if hm: name = hm.group(1)
                else:
                    ch = _const_header(ln)
                    name = ch[0] if ch else None
                j = i + 1
                while j < n and lines[j] != '}': j += 1
                if name is not None and i > 0 and lines[i - 1].startswith('// MIR FOR CTFE'):
                    ctfe.setdefault(name, (ln, lines[i + 1:j])); name = None          # the compile-time-evaluation copy of a const fn: the runtime body is the one that runs
                if name is not None:
                    if name in self.raw and self.raw[name][1] != lines[i + 1:j]:
                        # two bodies printed under one name (macro-generated impl blocks share a source span; nested fns of the same name in two arms)
                        mm = re.match(r'^(.*<impl at [^>]*)(>::.*)$', name)
                        if mm:
                            k = 2
                            while f'{mm.group(1)}#{k}{mm.group(2)}' in self.raw: k += 1
                            name = f'{mm.group(1)}#{k}{mm.group(2)}'
                        else: self.ambiguous.add(name)
                    self.raw[name] = (ln, lines[i + 1:j])
                i = j
            i += 1
        for k, v in ctfe.items(): self.raw.setdefault(k, v)
    def __contains__(self, k): return k in self.raw
    def __iter__(self): return iter(self.raw)
    def keys(self): return self.raw.keys()
    def __len__(self): return len(self.raw)
    def __getitem__(self, k):
        if k in self.ambiguous: raise KeyError('ambiguous MIR body name (two different bodies printed under it): ' + k)
        if k not in self.cache:
            h, ls = self.raw[k]; self.cache[k] = _parse_body(k, h, ls)
        return self.cache[k]
    def get(self, k, d=None): return self[k] if k in self.raw else d

def parse_mir(text): return Bodies(text)

if __name__ == '__main__':
    import sys
    bodies = parse_mir(open(sys.argv[1]).read())
    print(len(bodies), 'bodies')
    ns = 0; bad = 0
    for k in bodies:
        for v in bodies[k].blocks.values():
            ns += len(v); bad += sum(isinstance(x, Unparsed) for x in v)
            for x in v:
                if isinstance(x, Unparsed) and '-v' in sys.argv: print(k[:60], '|', x.text[:150], x.err[:60])
    print(ns, 'statements', bad, 'unparsed')
