"""Symbolic executor for rustc MIR with state merging at immediate post-dominators.

Values are immutable (values.py); a State is a stack of frames (local -> value), a path
condition kept as a tuple of conjuncts, and a guarded log of oracle calls.  Obligations
(panic, unwinding, unreachable) are collected on the engine; definitional side constraints of
fresh symbols (sqrt, atan2, %, ...) are collected in engine.side and are always guarded by
the domain condition under which the definition applies.
"""
import re, itertools, os, time
from fractions import Fraction
import z3
from .mirparse import *
from .values import *

class Inconclusive(Exception):
    """the run cannot be trusted/continued (unmodelled callee, unparsed statement, binding failure)"""

class Frame:
    __slots__ = ('body', 'locals', 'fid')
    def __init__(s, body, fid, locals_=None): s.body = body; s.locals = locals_ if locals_ is not None else {}; s.fid = fid
class State:
    __slots__ = ('frames', 'pc', 'unwind', 'log', 'aux')
    def __init__(s): s.frames = []; s.pc = (); s.unwind = {}; s.log = (); s.aux = {}
    def clone(s):
        n = State(); n.frames = [Frame(f.body, f.fid, dict(f.locals)) for f in s.frames]
        n.pc = s.pc; n.unwind = dict(s.unwind); n.log = s.log; n.aux = dict(s.aux); return n
    def pcz(s): return z3.And(*s.pc) if s.pc else z3.BoolVal(True)
    def assume(s, c):
        if c is True: return
        s.pc = s.pc + conjuncts(zb(c))
HARNESS = Body('harness', 0, '()')

def conjuncts(c):
    """split a condition into top-level conjuncts (And, Not Or, double negation), so that linear parts can be used separately"""
    out = []; todo = [c]
    while todo:
        u = todo.pop()
        if z3.is_and(u): todo += reversed(u.children())
        elif z3.is_not(u):
            v = u.arg(0)
            if z3.is_not(v): todo.append(v.arg(0))
            elif z3.is_or(v): todo += [z3.Not(x) for x in reversed(v.children())]
            elif z3.is_true(v): out.append(z3.BoolVal(False))
            elif z3.is_false(v): pass
            else: out.append(u)
        elif z3.is_true(u): pass
        else: out.append(u)
    return tuple(out)

def fop(op, a, b):
    """IEEE-like arithmetic on extended reals; +-inf handled by sign, everything doubtful becomes nan"""
    ai, bi = a.inf, b.inf
    conc = (not isz(ai) and ai == 0 and not isz(bi) and bi == 0)
    if conc and z3.is_rational_value(a.v) and z3.is_rational_value(b.v):
        x, y = a.v.as_fraction(), b.v.as_fraction(); nan = b_or(a.nan, b.nan)
        if op == 'Div':
            if y == 0: return F(RV(0), True, 0)
            return F(RV(x / y), nan, 0)
        return F(RV({'Add': x + y, 'Sub': x - y, 'Mul': x * y}[op]), nan, 0)
    if op == 'Div' and conc and z3.is_rational_value(b.v) and b.v.as_fraction() != 0:
        return F(a.v / b.v, b_or(a.nan, b.nan), 0)
    if op in ('Add', 'Sub'):
        v = a.v + b.v if op == 'Add' else a.v - b.v
        if conc: return F(v, b_or(a.nan, b.nan), 0)
        sb = bi if op == 'Add' else (-bi)
        nan = b_or(a.nan, b.nan, z3.And(zi(ai) != 0, zi(sb) != 0, zi(ai) != zi(sb)))
        return F(v, nan, i_ite(zi(ai) != 0, ai, sb))
    if op == 'Mul':
        v = a.v * b.v
        if conc: return F(v, b_or(a.nan, b.nan), 0)
        sa = z3.If(zi(ai) != 0, zi(ai), z3.If(a.v > 0, 1, z3.If(a.v < 0, -1, 0)))
        sb = z3.If(zi(bi) != 0, zi(bi), z3.If(b.v > 0, 1, z3.If(b.v < 0, -1, 0)))
        anyinf = z3.Or(zi(ai) != 0, zi(bi) != 0)
        nan = b_or(a.nan, b.nan, z3.And(anyinf, z3.Or(sa == 0, sb == 0)))
        return F(v, nan, z3.If(anyinf, sa * sb, 0))
    if op == 'Div':
        v = a.v / b.v
        if conc: return F(v, b_or(a.nan, b.nan, b.v == 0), 0)
        # x/inf = 0 ; inf/x = inf*sign ; inf/inf = nan ; x/0 = nan (sign of zero is not tracked)
        nan = b_or(a.nan, b.nan, z3.And(zi(bi) == 0, b.v == 0), z3.And(zi(ai) != 0, zi(bi) != 0))
        sb = z3.If(b.v > 0, 1, -1)
        return F(z3.If(zi(bi) != 0, z3.RealVal(0), v), nan, z3.If(z3.And(zi(ai) != 0, zi(bi) == 0), zi(ai) * sb, 0))
    raise NotImplementedError(op)

def fcmp(op, a, b):
    """comparison of extended reals; any nan -> false (true for Ne)"""
    nn = b_not(b_or(a.nan, b.nan))
    ai, bi = a.inf, b.inf
    if not isz(ai) and ai == 0 and not isz(bi) and bi == 0:
        if z3.is_rational_value(a.v) and z3.is_rational_value(b.v):
            x, y = a.v.as_fraction(), b.v.as_fraction()
            r = {'Lt': x < y, 'Le': x <= y, 'Gt': x > y, 'Ge': x >= y, 'Eq': x == y, 'Ne': x != y}[op]
            if op == 'Ne': return b_or(b_not(nn), r)
            return b_and(nn, r)
        lt, eq = a.v < b.v, a.v == b.v
    else:
        ai, bi = zi(ai), zi(bi)
        both = z3.And(ai == 0, bi == 0)
        lt = z3.If(both, a.v < b.v, ai < bi)
        eq = z3.If(both, a.v == b.v, ai == bi)
    r = {'Lt': lambda: lt, 'Le': lambda: z3.Or(lt, eq), 'Gt': lambda: z3.Not(z3.Or(lt, eq)), 'Ge': lambda: z3.Not(lt),
         'Eq': lambda: eq}
    if op == 'Ne': return b_or(b_not(nn), z3.Not(eq))
    return b_and(nn, r[op]())

class Engine:
    def __init__(s, bodies, repo='/repo', unwind=4, loop_bounds=None, pi_rational=False):
        s.bodies = bodies; s.K = unwind; s.repo = repo
        s.loop_bounds = loop_bounds or {}
        s.obligations = []          # dicts: kind, cond (z3), msg, where
        # pi: a real symbol with tight bounds (trig-exact reading) or pinned to the f64 constant (keeps angle arithmetic linear)
        s.side = [PI == RV(Fraction(PI_FLOAT))] if pi_rational else list(PI_BOUNDS)
        s.pi_rational = pi_rational
        s.side_lin = list(s.side)   # the linear subset (ranges, remainders by constants): enough to prune loop iterations, cheap to decide
        s.stats = dict(stmts=0, forks=0, merges=0, calls=0, inlined=0, modelled=0, feas_queries=0)
        s._ipdom = {}; s._reach = {}; s._live = {}; s._lin = {}; s._linz = {}; s._keep = []; s._rpo = {}; s._loops = {}; s._vars = {}; s.capture = set(); s.captured = {}; s._size = {}; s.feas_max_size = 300; s.feas_from = 1   # prune loop iterations from this unrolling depth on
        s.models = []               # (compiled regex, handler)
        s.overrides = {}            # body name (alias resolved) -> handler  (summaries / oracles for crate fns)
        s.used_models = {}; s.inlined_fns = {}
        s.alias = build_aliases(bodies, repo)
        s.enums = scan_enums(repo)
        s.const_cache = {}
        s.trace_calls = False
        s.check_feasible_all = False
        s.max_states = 64
        from . import models_std, models_na
        models_std.install(s); models_na.install(s)
        from . import models_extra; models_extra.install(s)

    # ---------- registry ----------
    def model(s, pattern, handler, front=False):
        ent = (re.compile(pattern), handler)
        if front: s.models.insert(0, ent)
        else: s.models.append(ent)
    def override(s, fname_suffix, handler):
        """replace a crate function (by resolved body name suffix) with a summary/oracle handler"""
        c = [n for n in s.bodies if n.endswith(fname_suffix)]
        if len(c) != 1: raise Inconclusive(f'override target {fname_suffix!r}: {len(c)} candidates')
        s.overrides[c[0]] = handler
    def find(s, suffix, prefix=''):
        c = [n for n in s.bodies if n.endswith(suffix) and n.startswith(prefix)]
        if len(c) != 1: raise Inconclusive(f'function {prefix}...{suffix}: {len(c)} candidates {c[:4]}')
        return c[0]

    # ---------- CFG ----------
    def succs(s, body, bb):
        t = body.blocks[bb][-1]
        if isinstance(t, Goto): return [t.target]
        if isinstance(t, SwitchInt): return [x for _, x in t.targets] + ([t.otherwise] if t.otherwise is not None else [])
        if isinstance(t, (Assert, Drop)): return [t.target]
        if isinstance(t, Call): return [t.target] if t.target is not None else []
        return []
    def ipdom(s, body):
        if body.name in s._ipdom: return s._ipdom[body.name]
        nodes = list(body.blocks); EXIT = -1
        dead = {n for n in nodes if len(body.blocks[n]) == 1 and isinstance(body.blocks[n][0], Unreachable)}
        succ = {}
        for n in nodes:
            ss = [x if x in body.blocks else EXIT for x in s.succs(body, n) if x not in dead]
            succ[n] = ss or [EXIT]
        pd = {n: set(nodes) | {EXIT} for n in nodes}; pd[EXIT] = {EXIT}
        changed = True
        while changed:
            changed = False
            for n in nodes:
                new = set.intersection(*[pd[x] for x in succ[n]]) | {n}
                if new != pd[n]: pd[n] = new; changed = True
        ip = {}
        for n in nodes:
            cands = pd[n] - {n}; best = None
            for c in cands:
                if all(o in pd[c] for o in cands): best = c
            ip[n] = best
        s._ipdom[body.name] = ip
        return ip
    def liveness(s, body):
        """(live_in: bb -> set of local numbers, always_live: locals whose address is taken) for pruning dead temporaries at merge points"""
        if body.name in s._live: return s._live[body.name]
        def base_local(p):
            while not isinstance(p, Local):
                p = p.base
            return p.n
        def place_uses(p, acc):
            # locals read when evaluating place p as an lvalue/rvalue path (index locals, deref bases)
            while not isinstance(p, Local):
                if isinstance(p, Index) and isinstance(p.idx, Local): acc.add(p.idx.n)
                p = p.base
            acc.add(p.n)
        def op_uses(o, acc):
            if isinstance(o, (Copy, Move)): place_uses(o.place, acc)
        addr = set(); gen = {}; kill = {}
        for bb, stmts in body.blocks.items():
            g, k = set(), set()
            def use(acc_fn, *a):
                tmp = set(); acc_fn(*a, tmp)
                for n in tmp:
                    if n not in k: g.add(n)
            for st_ in stmts:
                if isinstance(st_, Assign):
                    rv = st_.rv
                    if isinstance(rv, (Use, Cast)): use(op_uses, rv.op)
                    elif isinstance(rv, Ref): use(place_uses, rv.place); addr.add(base_local(rv.place))
                    elif isinstance(rv, BinOp): use(op_uses, rv.a); use(op_uses, rv.b)
                    elif isinstance(rv, UnOp): use(op_uses, rv.a)
                    elif isinstance(rv, Discr): use(place_uses, rv.place)
                    elif isinstance(rv, Repeat): use(op_uses, rv.op)
                    elif isinstance(rv, Aggregate):
                        for o in rv.fields: use(op_uses, o)
                    if isinstance(st_.place, Local): k.add(st_.place.n)
                    else: use(place_uses, st_.place)
                elif isinstance(st_, Call):
                    for o in st_.args: use(op_uses, o)
                    if isinstance(st_.dest, Local): k.add(st_.dest.n)
                    else: use(place_uses, st_.dest)
                elif isinstance(st_, SwitchInt): use(op_uses, st_.op)
                elif isinstance(st_, Assert): use(op_uses, st_.cond)
                elif isinstance(st_, Drop): pass
                elif isinstance(st_, Return): g.add(0) if 0 not in k else None
                elif isinstance(st_, Unparsed):
                    for mm in re.finditer(r'_(\d+)', st_.text): g.add(int(mm.group(1)))
            gen[bb] = g; kill[bb] = k
        live = {bb: set() for bb in body.blocks}
        changed = True
        while changed:
            changed = False
            for bb in body.blocks:
                out = set()
                for x in s.succs(body, bb):
                    if x in live: out |= live[x]
                new = gen[bb] | (out - kill[bb])
                if new != live[bb]: live[bb] = new; changed = True
        s._live[body.name] = (live, addr)
        return s._live[body.name]
    def prune_dead(s, st, fr, bb):
        """drop locals of frame fr that are dead at bb: not live by the dataflow analysis and not the target of a reference held by a live
        local (address-taken locals such as loop iterators would otherwise keep stale, unmergeable values)"""
        body = st.frames[fr].body
        if body is HARNESS or bb not in body.blocks: return
        live, addr = s.liveness(body)
        loc = st.frames[fr].locals
        keep = set(live[bb]) | {0} | set(range(1, body.nargs + 1))
        if body.name in s.capture:
            for pl in body.debug.values():      # a harness wants the named variables of this function at return: keep them
                while not isinstance(pl, Local): pl = pl.base
                keep.add(pl.n)
        def refs_in(v, acc, depth=0):
            if isinstance(v, RefV):
                if v.frame == fr: acc.add(v.local)
            elif hasattr(v, 'items') and depth < 6:
                for x in v.items: refs_in(x, acc, depth + 1)
            elif isinstance(v, (VecV, IterV)) and depth < 6:
                for _, x in v.ents: refs_in(x, acc, depth + 1)
        todo = list(keep)
        while todo:
            k = todo.pop()
            if k not in loc: continue
            acc = set(); refs_in(loc[k], acc)
            for r in acc:
                if r not in keep: keep.add(r); todo.append(r)
        # references held by callers/callees frames into this frame
        for fi, f_ in enumerate(st.frames):
            if fi == fr: continue
            for v in f_.locals.values():
                acc = set(); refs_in(v, acc)
                for r in acc:
                    if r not in keep:
                        keep.add(r); todo.append(r)
        while todo:
            k = todo.pop()
            if k not in loc: continue
            acc = set(); refs_in(loc[k], acc)
            for r in acc:
                if r not in keep: keep.add(r); todo.append(r)
        for k in [k for k in loc if k not in keep and (isinstance(k, int) or (isinstance(k, tuple) and k and k[0] == 'tmp'))]: del loc[k]
    def reaches(s, body, a, b):
        key = (body.name, a, b)
        if key in s._reach: return s._reach[key]
        seen, todo, r = set(), [a], False
        while todo:
            x = todo.pop()
            if x == b: r = True; break
            if x in seen or x not in body.blocks: continue
            seen.add(x); todo += s.succs(body, x)
        s._reach[key] = r; return r

    # ---------- places ----------
    def resolve(s, st, fr, place):
        if isinstance(place, Local): return (fr, place.n, ())
        if isinstance(place, Deref):
            r = s.read(st, fr, place.base)
            if isinstance(r, RefV): return (r.frame, r.local, r.path)
            if isinstance(r, BoxV):
                f, l, p = s.resolve(st, fr, place.base); return (f, l, p + (0,))
            raise Inconclusive(f'deref of {type(r).__name__} in {st.frames[fr].body.name}')
        f, l, p = s.resolve(st, fr, place.base)
        if isinstance(place, Field): return (f, l, p + (place.idx,))
        if isinstance(place, Downcast): return (f, l, p)
        if isinstance(place, Index):
            i = place.idx if isinstance(place.idx, int) else s.read(st, fr, place.idx)
            if isz(i):
                i = z3.simplify(i)
                if z3.is_int_value(i): i = i.as_long()
                else: raise Inconclusive('symbolic index')
            return (f, l, p + (int(i),))
        raise NotImplementedError(place)
    def read_at(s, st, f, l, p):
        try: v = st.frames[f].locals[l]
        except KeyError: raise Inconclusive(f'read of unset local _{l} in {st.frames[f].body.name}')
        for k in p:
            try: v = v.items[k]
            except (IndexError, AttributeError): raise Inconclusive(f'bad path {p} into {type(v).__name__} (_{l} of {st.frames[f].body.name})')
        return v
    def read(s, st, fr, place):
        """value of a place; goes through symbolic references (RefIte) by reading both targets"""
        if isinstance(place, Local):
            try: return st.frames[fr].locals[place.n]
            except KeyError: raise Inconclusive(f'read of unset local _{place.n} in {st.frames[fr].body.name}')
        if isinstance(place, Deref): return s.deref1(st, s.read(st, fr, place.base))
        v = s.read(st, fr, place.base)
        if isinstance(place, Downcast): return v
        if isinstance(place, Field): k = place.idx
        elif isinstance(place, Index):
            k = place.idx if isinstance(place.idx, int) else s.read(st, fr, place.idx)
            if isz(k):
                k = z3.simplify(k)
                if z3.is_int_value(k): k = k.as_long()
                else: raise Inconclusive('symbolic index')
            k = int(k)
        else: raise NotImplementedError(place)
        if isinstance(v, VecV) and not v.is_dense(): raise Inconclusive('index into guarded Vec')
        try: return v.items[k]
        except (IndexError, AttributeError): raise Inconclusive(f'bad projection {k} into {type(v).__name__} in {st.frames[fr].body.name}')
    def deref1(s, st, r):
        if isinstance(r, RefV): return s.read_ref(st, r)
        if isinstance(r, BoxV): return r.items[0]
        if isinstance(r, RefIte): return ite(r.c, s.deref1(st, r.a), s.deref1(st, r.b))
        raise Inconclusive(f'deref of {type(r).__name__}')
    def read_ref(s, st, r): return s.read_at(st, r.frame, r.local, r.path)
    def deref(s, st, r):
        while isinstance(r, (RefV, RefIte)): r = s.deref1(st, r)
        return r
    def write_at(s, st, f, l, p, val):
        if not p: st.frames[f].locals[l] = val; return
        def upd(v, p):
            if not p: return val
            if v is None: raise Inconclusive('write into unset aggregate')
            return v.with_item(p[0], upd(v.items[p[0]] if p[0] < len(v.items) else None, p[1:]))
        st.frames[f].locals[l] = upd(st.frames[f].locals.get(l), p)
    def write(s, st, fr, place, val): s.write_at(st, *s.resolve(st, fr, place), val)
    def write_ref(s, st, r, val): s.write_at(st, r.frame, r.local, r.path, val)
    def tmp_ref(s, st, fr, val):
        """store a value in a fresh pseudo-local of frame fr and return a reference to it"""
        k = ('tmp', next(s._tmpc)); st.frames[fr].locals[k] = val; return RefV(fr, k, ())
    _tmpc = itertools.count()

    # ---------- constants ----------
    def const(s, text, st):
        t = text.strip()
        m = re.match(r'^(-?[\d\.]+(?:[eE][\+\-]?\d+)?)f(64|32)$', t)
        if m: return fconst(Fraction(m.group(1)))
        m = re.match(r'^(-?\d+)_(usize|isize|u8|u16|u32|u64|u128|i8|i16|i32|i64|i128)$', t)
        if m: return int(m.group(1))
        if t == 'true': return True
        if t == 'false': return False
        if t == '()': return UNIT
        if t in ('inff64', '+inff64'): return F_INF(1)
        if t == '-inff64': return F_INF(-1)
        if t == 'NaNf64': return F_NAN()
        if re.match(r'^(std|core)::f64::consts::PI$', t) or t.endswith('f64::consts::PI'): return F(PI)
        if re.search(r'f64::consts::FRAC_PI_2$', t): return F(PI / 2)
        if re.search(r'f64::consts::TAU$', t): return F(2 * PI)
        if re.search(r'(^|::)f64::(<impl f64>::)?INFINITY$', t): return F_INF(1)
        if re.search(r'(^|::)f64::(<impl f64>::)?NEG_INFINITY$', t): return F_INF(-1)
        if re.search(r'(^|::)f64::(<impl f64>::)?NAN$', t): return F_NAN()
        if re.search(r'(^|::)f64::(<impl f64>::)?EPSILON$', t): return fconst(Fraction(2.220446049250313e-16))
        if t == '<u32 as bitflags::Bits>::EMPTY': return 0
        if t == '<u32 as bitflags::Bits>::ALL': return 0xFFFFFFFF
        if t.startswith('ZeroSized: '):
            ty = t[len('ZeroSized: '):]
            if ty.startswith('{closure@'): return Closure(ty, [])
            if ty.startswith('fn(') or ty.startswith('for<') or '::' in ty or ty.startswith('<'): return FnPtr(ty)
            return UNIT
        if t.startswith('"'):
            return StrV(t[1:t.rindex('"')])
        if t.startswith('b"'): return StrV(t[2:t.rindex('"')])
        if t in s.bodies.simple: return s.const(s.bodies.simple[t], st)
        if t in s.alias and s.alias[t] in s.bodies.simple: return s.const(s.bodies.simple[s.alias[t]], st)
        if t in s.bodies and t not in s.bodies.ambiguous:
            if t not in s.const_cache:
                cs = s.new_state(); cs.frames.append(Frame(s.bodies[t], 1))
                outs = s.run(cs, 1, 0, None)
                if len(outs) != 1: raise Inconclusive('const item forks: ' + t)
                cs = outs[0][1]; cv = cs.frames[-1].locals.get(0, UNIT)
                # a promoted constant is a reference to a value: keep the pointee and materialise it in the harness frame of each state
                s.const_cache[t] = ('ref', s.deref(cs, cv)) if isinstance(cv, RefV) else ('val', cv)
            kind, val = s.const_cache[t]
            if kind == 'val' or st is None: return val
            st.frames[0].locals[('const', t)] = val
            return RefV(0, ('const', t), ())
        a = s.resolve_name(t)
        if (a in s.bodies or a in s.bodies.simple) and a != t: return s.const(a, st)
        ev = s.enum_variant(t)
        if ev is not None: return Enum(ev[1], [], ev[0])
        if t.startswith('tracing::') or '::__CALLSITE' in t or t.startswith('{alloc'): return Opaque('const', t)      # logging machinery: never inspected (the level filter is modelled as off)
        raise Inconclusive('const ' + t)
    def operand(s, st, fr, op):
        if isinstance(op, Const): return s.const(op.text, st)
        return s.read(st, fr, op.place)
    def new_state(s):
        st = State(); st.frames.append(Frame(HARNESS, 0)); return st

    # ---------- rvalues ----------
    def binop(s, op, a, b):
        if isinstance(a, F) and isinstance(b, F):
            if op in ('Add', 'Sub', 'Mul', 'Div'): return fop(op, a, b)
            if op == 'Rem': return s.frem(a, b)
            if op in ('Lt', 'Le', 'Gt', 'Ge', 'Eq', 'Ne'): return fcmp(op, a, b)
            raise NotImplementedError(op)
        ab = (isinstance(a, bool) or (isz(a) and z3.is_bool(a)))
        if ab:
            if op == 'Eq': return b_or(b_and(a, b), b_and(b_not(a), b_not(b)))
            if op == 'Ne': return b_or(b_and(a, b_not(b)), b_and(b_not(a), b))
            if op == 'BitAnd': return b_and(a, b)
            if op == 'BitOr': return b_or(a, b)
            if op == 'BitXor': return b_or(b_and(a, b_not(b)), b_and(b_not(a), b))
        if not isz(a) and not isz(b):
            if op.endswith('WithOverflow'):
                r = {'Add': a + b, 'Sub': a - b, 'Mul': a * b}[op[:3]]
                return Agg([r, r < -(2 ** 63) or r >= 2 ** 64])
            if op.endswith('Unchecked'): op = op[:3]
            f = {'Add': lambda: a + b, 'Sub': lambda: a - b, 'Mul': lambda: a * b, 'Lt': lambda: a < b, 'Le': lambda: a <= b,
                 'Gt': lambda: a > b, 'Ge': lambda: a >= b, 'Eq': lambda: a == b, 'Ne': lambda: a != b,
                 'BitOr': lambda: a | b, 'BitAnd': lambda: a & b, 'BitXor': lambda: a ^ b, 'Shl': lambda: a << b, 'Shr': lambda: a >> b,
                 'Div': lambda: (abs(a) // abs(b)) * (1 if (a >= 0) == (b >= 0) else -1),
                 'Rem': lambda: abs(a) % abs(b) * (1 if a >= 0 else -1),
                 'Cmp': lambda: Enum((a > b) - (a < b), [], 'Ordering')}.get(op)
            if f is None: raise NotImplementedError(op)
            return f()
        a2, b2 = zi(a), zi(b)
        if op.endswith('WithOverflow'):
            r = {'Add': a2 + b2, 'Sub': a2 - b2, 'Mul': a2 * b2}[op[:3]]
            return Agg([r, z3.Or(r < -(2 ** 63), r >= 2 ** 64)])
        if op.endswith('Unchecked'): op = op[:3]
        f = {'Add': lambda: a2 + b2, 'Sub': lambda: a2 - b2, 'Mul': lambda: a2 * b2, 'Lt': lambda: a2 < b2, 'Le': lambda: a2 <= b2,
             'Gt': lambda: a2 > b2, 'Ge': lambda: a2 >= b2, 'Eq': lambda: a2 == b2, 'Ne': lambda: a2 != b2}.get(op)
        if f is None: raise Inconclusive(f'symbolic integer op {op}')
        return f()
    def frem(s, a, b):
        """Rust's % on floats = fmod: result has the sign of the dividend, |r| < |b|"""
        p = b_or(a.nan, b.nan, a.is_inf(), b.v == 0)      # x % inf = x is not modelled (never used with inf divisor here)
        k = fresh('remk', 'int'); r = fresh('rem')
        m = z3.If(b.v >= 0, b.v, -b.v)
        c = z3.Implies(z3.Not(zb(p)), z3.And(a.v == z3.ToReal(k) * m + r,
                      z3.If(a.v >= 0, z3.And(r >= 0, r < m), z3.And(r <= 0, r > -m))))
        s.side.append(c)
        # for pruning only the range of the remainder is kept (the integer quotient makes the pruning queries slow and is not needed there)
        if s.pi_rational: s.side_lin.append(z3.Implies(z3.Not(zb(p)), z3.If(a.v >= 0, z3.And(r >= 0, r < m), z3.And(r <= 0, r > -m))))
        return F(r, p, 0)
    def rvalue(s, st, fr, rv):
        if isinstance(rv, Use): return s.operand(st, fr, rv.op)
        if isinstance(rv, Cast):
            v = s.operand(st, fr, rv.op)
            k = rv.kind
            if k.startswith('PointerCoercion') or k in ('Transmute', 'PtrToPtr', 'PointerExposeProvenance', 'PointerWithExposedProvenance'):
                if 'ReifyFnPointer' in k or 'ClosureFnPointer' in k: return v
                return v
            if k == 'IntToFloat':
                if hasattr(v, 'value') and type(v).__name__ == 'NumTok': return F(v.value)
                if isinstance(v, bool): v = int(v)
                if isinstance(v, int): return fconst(v)
                if z3.is_int(v): return F(z3.ToReal(v))
                return F(v)
            if k == 'IntToInt':
                if type(v).__name__ == 'NumTok': return v.value
                if isinstance(v, bool): return int(v)
                if isz(v) and z3.is_bool(v): return z3.If(v, 1, 0)
                if isinstance(v, Enum): return v.disc
                return v
            if k == 'FloatToFloat': return v
            if k == 'FloatToInt':
                return s.float_to_int(v, rv.ty)
            raise Inconclusive('cast ' + k)
        if isinstance(rv, Ref):
            f, l, p = s.resolve(st, fr, rv.place); return RefV(f, l, p)
        if isinstance(rv, BinOp): return s.binop(rv.op, s.operand(st, fr, rv.a), s.operand(st, fr, rv.b))
        if isinstance(rv, UnOp):
            a = s.operand(st, fr, rv.a)
            if rv.op == 'Neg':
                if isinstance(a, F): return F(-a.v, a.nan, (-a.inf))
                return -a
            if rv.op == 'Not':
                if isinstance(a, bool) or (isz(a) and z3.is_bool(a)): return b_not(a)
                if isinstance(a, int): return ~a
                raise Inconclusive('symbolic bitwise not')
            if rv.op == 'PtrMetadata':
                v = s.deref(st, a)
                if isinstance(v, VecV):
                    if not v.is_dense(): raise Inconclusive('len of guarded Vec')
                    return len(v.ents)
                if isinstance(v, Agg): return len(v.items)
                if isinstance(v, Opaque) and v.kind == 'verts': return z3.Int(f'nverts_{v.name}')      # length of an opaque vertex buffer: a symbolic count per mesh
                raise Inconclusive('PtrMetadata of ' + type(v).__name__)
            raise NotImplementedError(rv.op)
        if isinstance(rv, Discr):
            v = s.read(st, fr, rv.place)
            if isinstance(v, Enum): return v.disc
            raise Inconclusive(f'discriminant of {type(v).__name__} in {st.frames[fr].body.name}')
        if isinstance(rv, Repeat):
            n = int(re.match(r'(?:const )?(\d+)', rv.n).group(1)); v = s.operand(st, fr, rv.op)
            return Agg([v] * n)
        if isinstance(rv, Aggregate):
            items = [s.operand(st, fr, o) for o in rv.fields]
            if rv.kind in ('tuple', 'array'): return Agg(items)
            if rv.name.startswith('{closure@'): return Closure(rv.name, items)
            if rv.kind == 'struct':
                if re.match(r'^std::ops::Range(::)?<', rv.name): return RangeV(items, 'Range')
                if re.match(r'^std::ops::RangeInclusive(::)?<', rv.name): return RangeV(items + [False], 'RangeInclusive')
                ev = s.enum_variant(rv.name)
                if ev is not None: return Enum(ev[1], items, ev[0])
                return Agg(items, rv.name)
            if rv.kind == 'variant':
                ev = s.enum_variant(rv.name)
                if ev is not None: return Enum(ev[1], items, ev[0])
                # tuple struct constructor
                return Agg(items, rv.name)
        raise NotImplementedError(rv)
    STD_ENUMS = {'None': ('Option', 0), 'Some': ('Option', 1), 'Ok': ('Result', 0), 'Err': ('Result', 1),
                 'Less': ('Ordering', -1), 'Equal': ('Ordering', 0), 'Greater': ('Ordering', 1),
                 'Continue': ('ControlFlow', 0), 'Break': ('ControlFlow', 1)}
    def enum_variant(s, name):
        n = strip_generics(name)
        for _ in range(4): n = re.sub(r'<[^<>]*>', '', n)
        parts = [p for p in n.split('::') if p]
        v = parts[-1]
        if len(parts) >= 2:
            en = parts[-2]
            if en in ('Option', 'Result', 'Ordering', 'ControlFlow') and v in s.STD_ENUMS: return s.STD_ENUMS[v]
            if en in s.enums and v in s.enums[en]: return (en, s.enums[en].index(v))
        return None
    def float_to_int(s, v, ty):
        raise Inconclusive('FloatToInt cast is modelled per harness')

    # ---------- merging ----------
    def merge(s, sts):
        out = []
        for st in sts:
            for i, o in enumerate(out):
                try:
                    out[i] = s.merge2(o, st); s.stats['merges'] += 1; break
                except Unmergeable:
                    continue
            else:
                out.append(st)
        return out
    def merge2(s, a, b):
        if len(a.frames) != len(b.frames): raise Unmergeable('frames')
        if a.unwind != b.unwind: raise Unmergeable('different loop iterations')
        # common prefix of the path conditions
        n = 0
        while n < len(a.pc) and n < len(b.pc) and a.pc[n].eq(b.pc[n]): n += 1
        ra, rb = a.pc[n:], b.pc[n:]
        ca = z3.And(*ra) if len(ra) != 1 else ra[0]
        if not ra: ca = z3.BoolVal(True)
        cb = z3.And(*rb) if len(rb) != 1 else rb[0]
        if not rb: cb = z3.BoolVal(True)
        m = State(); m.unwind = dict(b.unwind)
        for k_, v_ in a.unwind.items(): m.unwind[k_] = max(v_, m.unwind.get(k_, 0))
        for fa, fb in zip(a.frames, b.frames):
            if fa.body is not fb.body: raise Unmergeable('body')
        for fa, fb in zip(a.frames, b.frames):
            fm = Frame(fa.body, fa.fid)
            la, lb = fa.locals, fb.locals
            for k in la.keys() | lb.keys():
                x, y = la.get(k), lb.get(k)
                fm.locals[k] = x if x is y else ite(ca, x, y)
            m.frames.append(fm)
        m.log = _merge_log(ca, a.log, b.log)
        m.aux = dict(b.aux); m.aux.update(a.aux)
        for k in a.aux.keys() & b.aux.keys():
            if a.aux[k] is not b.aux[k]:
                if isinstance(a.aux[k], int) and isinstance(b.aux[k], int): m.aux[k] = max(a.aux[k], b.aux[k])   # harness bookkeeping counters
                else: m.aux[k] = ite(ca, a.aux[k], b.aux[k])
        if len(ra) == 1 and len(rb) == 1 and (z3.Not(ra[0]).eq(rb[0]) or ra[0].eq(z3.Not(rb[0]))):
            m.pc = a.pc[:n]
        else:
            m.pc = a.pc[:n] + (z3.Or(ca, cb),)
        return m

    # ---------- execution ----------
    def is_linear(s, e):
        """no products/divisions of two non-constant terms anywhere in e (memoised by term id)"""
        k = e.get_id()
        r = s._lin.get(k)
        if r is not None: return r
        r = True
        kind = e.decl().kind() if z3.is_app(e) else None
        if kind == z3.Z3_OP_MUL:
            r = sum(0 if (z3.is_rational_value(c) or z3.is_int_value(c)) else 1 for c in e.children()) <= 1
        elif kind in (z3.Z3_OP_DIV, z3.Z3_OP_IDIV, z3.Z3_OP_MOD, z3.Z3_OP_REM):
            r = z3.is_rational_value(e.arg(1)) or z3.is_int_value(e.arg(1))
        elif kind == z3.Z3_OP_POWER: r = False
        if r:
            for c in e.children():
                if not s.is_linear(c): r = False; break
        s._lin[k] = r; return r
    def linearize(s, e):
        """replace every maximal non-linear subterm by a fresh constant (same subterm -> same constant): a sound linear over-approximation"""
        k = e.get_id()
        r = s._linz.get(k)
        if r is not None: return r
        if s.is_linear(e): r = e
        else:
            kind = e.decl().kind() if z3.is_app(e) else None
            nonlin_here = False
            if kind == z3.Z3_OP_MUL: nonlin_here = sum(0 if (z3.is_rational_value(c) or z3.is_int_value(c)) else 1 for c in e.children()) > 1
            elif kind in (z3.Z3_OP_DIV, z3.Z3_OP_IDIV, z3.Z3_OP_MOD, z3.Z3_OP_REM): nonlin_here = not (z3.is_rational_value(e.arg(1)) or z3.is_int_value(e.arg(1)))
            elif kind == z3.Z3_OP_POWER: nonlin_here = True
            if nonlin_here: r = z3.FreshConst(e.sort(), 'nl')
            else:
                ch = [s.linearize(c) for c in e.children()]
                r = e.decl()(*ch)
        s._linz[k] = r; s._keep.append(e); return r
    def size_of(s, e, cap=5000):
        k = e.get_id(); r = s._size.get(k)
        if r is not None: return r
        n = 0; todo = [e]; seen = set()
        while todo and n <= cap:
            u = todo.pop(); i = u.get_id()
            if i in seen: continue
            seen.add(i); n += 1; todo += u.children()
        s._size[k] = n; s._keep.append(e); return n
    def vars_of(s, e):
        k = e.get_id(); r = s._vars.get(k)
        if r is not None: return r
        acc = set(); todo = [e]; seen = set()
        while todo:
            u = todo.pop()
            i = u.get_id()
            if i in seen: continue
            seen.add(i)
            if z3.is_const(u):
                if u.decl().kind() == z3.Z3_OP_UNINTERPRETED: acc.add(i)
            else: todo += u.children()
        r = frozenset(acc); s._vars[k] = r; s._keep.append(e); return r
    def feasible(s, conds, timeout=2000, focus=None):
        """may the conjunction hold? decided on a LINEAR abstraction (non-linear subterms replaced by fresh constants) of the conjuncts in the
        cone of influence of `focus` (default: the last conjunct), plus the linear side constraints in that cone: a sound over-approximation,
        used only for pruning loop iterations"""
        s.stats['feas_queries'] += 1
        conds = list(conds)
        if not conds: return True
        focus = focus if focus is not None else [conds[-1]]
        # giant merged disjunctions are left out (sound: fewer conjuncts = weaker); bounds and recent loop conditions are small
        conds = [c for c in conds if s.size_of(c) <= s.feas_max_size]
        lin = [s.linearize(c) for c in conds] ; flin = [s.linearize(c) for c in focus]
        pool = [(c, s.vars_of(c)) for c in lin] + [(c, s.vars_of(c)) for c in s.side_lin]
        cone = set()
        for c in flin: cone |= s.vars_of(c)
        chosen = [False] * len(pool); changed = True
        while changed:
            changed = False
            for i, (c, vs) in enumerate(pool):
                if not chosen[i] and (vs & cone):
                    chosen[i] = True; changed = True; cone |= vs
        sol = z3.Solver(); sol.set('timeout', timeout)
        for c in flin: sol.add(c)
        for i, (c, vs) in enumerate(pool):
            if chosen[i]: sol.add(c)
        return sol.check() != z3.unsat
    def call_body(s, st, body, args):
        fr = Frame(body, len(st.frames))
        if len(args) != body.nargs: raise Inconclusive(f'arity {body.name}: {len(args)} vs {body.nargs}')
        for i, a in enumerate(args): fr.locals[i + 1] = a
        st.frames.append(fr)
        depth = len(st.frames)
        if depth > 60: raise Inconclusive('call depth')
        outs = s.run(st, len(st.frames) - 1, 0, None)
        res = []
        for kind, o in outs:
            assert kind == 'ret'
            rv = o.frames[-1].locals.get(0, UNIT)
            o.frames.pop()
            res.append((o, rv))
        if len(res) > 1:
            # merge return states (value goes through a pseudo local)
            for o, rv in res: o.frames[-1].locals['__ret'] = rv
            ms = s.merge([o for o, _ in res])
            res = [(o, o.frames[-1].locals.pop('__ret')) for o in ms]
        return res
    def add_obligation(s, kind, cond, msg, where):
        s.obligations.append(dict(kind=kind, cond=cond, msg=msg, where=where))
    def rpo(s, body):
        """reverse post-order index of every block (loop headers before their bodies, joins after all their predecessors)"""
        if body.name in s._rpo: return s._rpo[body.name]
        seen, order = set(), []
        stack = [(0, iter(s.succs(body, 0)))]; seen.add(0)
        while stack:
            n, it = stack[-1]
            for x in it:
                if x in body.blocks and x not in seen:
                    seen.add(x); stack.append((x, iter(s.succs(body, x)))); break
            else:
                order.append(n); stack.pop()
        idx = {n: i for i, n in enumerate(reversed(order))}
        s._rpo[body.name] = idx; return idx
    def loops(s, body):
        """block -> tuple of enclosing loops, innermost first; a loop is (header, frozenset of blocks). Loops = non-trivial SCCs, nested
        loops found by removing the header and decomposing again."""
        if body.name in s._loops: return s._loops[body.name]
        rpo = s.rpo(body)
        def sccs(nodes):
            nodes = set(nodes); index = {}; low = {}; onst = set(); stack = []; out = []; cnt = [0]
            for root in sorted(nodes, key=lambda n: rpo.get(n, 1 << 30)):
                if root in index: continue
                work = [(root, iter([x for x in s.succs(body, root) if x in nodes]))]
                index[root] = low[root] = cnt[0]; cnt[0] += 1; stack.append(root); onst.add(root)
                while work:
                    n, it = work[-1]
                    adv = False
                    for x in it:
                        if x not in index:
                            index[x] = low[x] = cnt[0]; cnt[0] += 1; stack.append(x); onst.add(x)
                            work.append((x, iter([y for y in s.succs(body, x) if y in nodes]))); adv = True; break
                        elif x in onst: low[n] = min(low[n], index[x])
                    if adv: continue
                    work.pop()
                    if work: low[work[-1][0]] = min(low[work[-1][0]], low[n])
                    if low[n] == index[n]:
                        comp = []
                        while True:
                            x = stack.pop(); onst.discard(x); comp.append(x)
                            if x == n: break
                        if len(comp) > 1 or n in s.succs(body, n): out.append(comp)
            return out
        encl = {n: [] for n in body.blocks}
        def rec(nodes):
            for comp in sccs(nodes):
                h = min(comp, key=lambda n: rpo.get(n, 1 << 30)); L = (h, frozenset(comp))
                for n in comp: encl[n].append(L)
                rec([n for n in comp if n != h])
        rec(list(body.blocks))
        res = {n: tuple(reversed(v)) for n, v in encl.items()}     # innermost first
        s._loops[body.name] = res; return res
    def run(s, st0, fr, bb0, stop):
        """worklist execution of one function body with state merging at every join: the pending block with the smallest reverse-post-order
        index is executed next, all mergeable states waiting at it are merged first (loops finish before their exits proceed)."""
        body = st0.frames[fr].body
        rpo = s.rpo(body); lp = s.loops(body)
        pending = {bb0: [st0]}; rets = []
        steps = 0
        while pending:
            # least-advanced first: order by (header rpo, iterations completed) along the loop nest, then by rpo of the block, so that a state
            # that has come round to a loop header waits for the rest of its iteration before the next iteration starts
            def skey(b, st_):
                k = []
                for h, L in reversed(lp.get(b, ())): k += [rpo.get(h, 1 << 30), st_.unwind.get((fr, body.name, h), 0)]
                return tuple(k) + (rpo.get(b, 1 << 30),)
            bb = min(pending, key=lambda b: min(skey(b, x) for x in pending[b]))
            allst = pending.pop(bb)
            kmin = min(skey(bb, x) for x in allst)
            sts = [x for x in allst if skey(bb, x) == kmin]
            rest = [x for x in allst if skey(bb, x) != kmin]
            if rest: pending[bb] = rest
            if len(sts) > 1:
                for o in sts: s.prune_dead(o, fr, bb)
                sts = s.merge(sts)
            if len(sts) > s.max_states: raise Inconclusive(f'state explosion in {body.name} bb{bb}: {len(sts)} unmergeable states')
            for st in sts:
                steps += 1
                if steps > 200000: raise Inconclusive(f'step budget exhausted in {body.name}')
                for nbb, nst in s.step_block(st, fr, body, bb):
                    for h, L in lp.get(bb, ()):
                        if nbb is None or nbb not in L: nst.unwind.pop((fr, body.name, h), None)
                        elif nbb == h: nst.unwind[(fr, body.name, h)] = nst.unwind.get((fr, body.name, h), 0) + 1     # one more iteration completed
                    if nbb is None: rets.append(('ret', nst))
                    else: pending.setdefault(nbb, []).append(nst)
        return rets
    def step_block(s, st, fr, body, bb):
        """execute block bb of the top frame; returns [(next block or None for return, state)]"""
        blk = body.blocks[bb]
        for stmt in blk[:-1]:
            s.stats['stmts'] += 1
            if isinstance(stmt, Assign):
                try: s.write(st, fr, stmt.place, s.rvalue(st, fr, stmt.rv))
                except NotImplementedError as e: raise Inconclusive(f'{body.name} bb{bb}: {e!r}')
            elif isinstance(stmt, Nop): pass
            elif isinstance(stmt, Unparsed): raise Inconclusive(f'unparsed MIR in {body.name}: {stmt.text[:100]}')
            else: raise Inconclusive(f'statement {stmt}')
        t = blk[-1]; s.stats['stmts'] += 1
        if isinstance(t, Goto): return [(t.target, st)]
        if isinstance(t, Return):
            if body.name in s.capture:
                # harness asked for the values of this function's named variables at return (lemmas refer to them by their debug names)
                vals = {}
                for dn, pl in body.debug.items():
                    try: vals[dn] = s.read(st, fr, pl)
                    except Exception: pass
                s.captured.setdefault(body.name, []).append((st.pc, vals))
            return [(None, st)]
        if isinstance(t, Unreachable):
            s.add_obligation('unreachable', st.pcz(), 'unreachable', f'{body.name} bb{bb}'); return []
        if isinstance(t, Drop): return [(t.target, st)]
        if isinstance(t, Assert):
            c = s.operand(st, fr, t.cond)
            ok = c if t.expected else b_not(c)
            if isz(ok):
                s.add_obligation('panic', z3.And(st.pcz(), z3.Not(ok)), t.msg, f'{body.name} bb{bb}'); st.assume(ok)
            elif not ok:
                s.add_obligation('panic', st.pcz(), t.msg, f'{body.name} bb{bb}'); return []
            return [(t.target, st)]
        if isinstance(t, Unparsed): raise Inconclusive(f'unparsed MIR in {body.name}: {t.text[:100]}')
        if isinstance(t, Call):
            s.stats['calls'] += 1
            args = [s.operand(st, fr, a) for a in t.args]
            results = s.call(st, fr, t.func, args)
            nxt = []
            for o, v in results:
                if t.target is None: continue      # diverging call: the model recorded the panic obligation
                s.write(o, fr, t.dest, v); nxt.append((t.target, o))
            return nxt
        if isinstance(t, SwitchInt):
            v = s.operand(st, fr, t.op)
            # switch targets are printed as unsigned bit patterns: for a signed operand (e.g. the i8 discriminant of Ordering: Less = 255) read them as two's complement
            pl_ = getattr(t.op, 'place', None); ty_ = body.local_ty.get(getattr(pl_, 'n', None), '') if pl_ is not None else ''
            mty = re.match(r'^i(8|16|32|64|128)$', ty_.strip())
            if mty:
                w_ = int(mty.group(1))
                t = SwitchInt(t.op, [((val - (1 << w_)) if val >= (1 << (w_ - 1)) else val, tgt) for val, tgt in t.targets], t.otherwise)
            if isz(v):
                vs = z3.simplify(v)      # only to detect constants: the original term is kept so that equal sub-terms stay identical
                if z3.is_true(vs): v = True
                elif z3.is_false(vs): v = False
                elif z3.is_int_value(vs): v = vs.as_long()
            if not isz(v):
                return [(dict(t.targets).get(int(v), t.otherwise), st)]
            s.stats['forks'] += 1
            isbool = z3.is_bool(v)
            arms, others = [], []
            for val, tgt in t.targets:
                c = (z3.Not(v) if val == 0 else v) if isbool else (v == val)
                arms.append((c, tgt)); others.append(z3.Not(c))
            if t.otherwise is not None: arms.append((z3.And(others) if len(others) > 1 else others[0], t.otherwise))
            enc = s.loops(body).get(bb, ())
            inner = enc[0] if enc else None
            stay = [inner is not None and tgt in inner[1] for _, tgt in arms]
            controls = inner is not None and any(stay) and not all(stay)     # this switch decides whether the innermost loop continues
            key = (fr, body.name, inner[0]) if inner else None
            depth = st.unwind.get(key, 0) if controls else 0
            K = s.loop_bounds.get(body.name.split('::')[-1], s.K)
            outs = []
            for (c, tgt), stays in zip(arms, stay):
                if len(body.blocks[tgt]) == 1 and isinstance(body.blocks[tgt][0], Unreachable):
                    if z3.is_false(z3.simplify(c)): continue
                back = controls and stays
                if back and depth >= K:
                    s.add_obligation('unwind', z3.And(st.pcz(), c), f'loop bound K={K}', f'{body.name} bb{bb}'); continue
                if (controls and depth >= s.feas_from) or s.check_feasible_all:
                    if not s.feasible(st.pc + conjuncts(c), focus=list(conjuncts(c))): continue
                a = st.clone(); a.pc = st.pc + conjuncts(c)
                outs.append((tgt, a))
            return outs
        raise Inconclusive(f'terminator {t}')

    # ---------- calls ----------
    def resolve_name(s, func):
        r = s._resolve_name(func)
        if r == func and func.endswith('>'):
            # a generic fn of the crate called with a turbofish: resolve without it (its one body serves every instantiation)
            f2 = strip_tail(func)
            if f2 != func:
                r2 = s._resolve_name(f2)
                if r2 in s.bodies or r2 in s.bodies.simple: return r2
        return r
    def _resolve_name(s, func):
        f = func
        if f in s.bodies: return f
        if f in s.alias: return s.alias[f]
        g = strip_generics(f)
        if g in s.bodies: return g
        if g in s.alias: return s.alias[g]
        m = re.match(r'^([\w:]+::)<impl ([^>]*)>::(\w+)$', func)
        if m:
            c = [n for n in s.bodies.keys() if n.startswith(m.group(1) + '<impl at') and n.endswith('::' + m.group(3))]
            if len(c) == 1: return c[0]
            if len(c) > 1:
                # several inherent impls in one module (macro generated): the implementing type is the receiver or the result type
                ty = m.group(2).strip()
                c2 = [n for n in c if s.impl_type_is(n, ty)]
                if len(c2) == 1: return c2[0]
        # associated constant of a type whose impl block is only known by its source span: module::Type::NAME
        m = re.match(r'^((?:\w+::)+)(\w+)::(\w+)((?:::promoted\[\d+\])?)$', func)
        if m and func not in s.bodies:
            c = [n for n in s.bodies.keys() if n.startswith(m.group(1) + '<impl at') and n.endswith('::' + m.group(3))]
            full = m.group(1) + m.group(2)
            c = [n for n in c if s.impl_type_is(n, full)]
            if len(c) == 1 and (c[0] + m.group(4) in s.bodies or c[0] + m.group(4) in s.bodies.simple): return c[0] + m.group(4)
        # <Type as Trait>::method[::nested item]
        m = re.match(r'^<(.+) as ([\w:]+)(?:<.*>)?>::(\w+)((?:::.+)?)$', g)
        if m:
            ty, trait, meth = strip_generics(m.group(1)), m.group(2).split('::')[-1], m.group(3)
            k = (ty.lstrip('&').replace('mut ', ''), trait, meth)
            if k in s.alias:
                cand = s.alias[k] + m.group(4)
                if cand in s.bodies or cand in s.bodies.simple: return cand
            # trait impls generated by a macro of another crate (their span is not in this repository): the unique body of that method name in the
            # type's module (or its anonymous `_` child) whose receiver is exactly the type
            if '::' in k[0]:
                mod = k[0].rsplit('::', 1)[0] + '::'
                c = [n for n in s.bodies.keys() if (n.startswith(mod + '<impl at') or n.startswith(mod + '_::<impl at')) and n.endswith('>::' + meth) and '/src/' in n]
                c = [n for n in c if (s.bodies[n].nargs == 0 and len(c) == 1) or s.bodies[n].local_ty.get(1, '').replace('&mut ', '').replace('&', '').strip() == k[0]]
                if len(c) == 1 and (c[0] + m.group(4) in s.bodies or c[0] + m.group(4) in s.bodies.simple): return c[0] + m.group(4)
        return f
    def impl_type_is(s, n, ty):
        """is body n a method/associated fn of type ty? (receiver type when it has one; otherwise the result type; a later parameter of the type also counts)"""
        b = s.bodies[n]; clean = lambda t: t.replace('&mut ', '').replace('&', '').strip()
        if b.nargs >= 1 and clean(b.local_ty.get(1, '')) == ty: return True
        if b.nargs >= 1 and any(clean(b.local_ty.get(k, '')) == ty for k in range(2, b.nargs + 1)) and clean(b.local_ty.get(1, '')).split('::')[-1][:1].islower(): return True
        return clean(b.local_ty.get(0, '')) == ty and not (b.nargs >= 1 and '::' in clean(b.local_ty.get(1, '')) and clean(b.local_ty.get(1, '')) != ty and clean(b.local_ty.get(1, '')).split('::')[0] == ty.split('::')[0])
    def call(s, st, fr, func, args):
        f = s.resolve_name(func)
        if s.trace_calls: print('  ' * len(st.frames), 'call', func[:140])
        if f in s.overrides:
            s.used_models[f] = s.used_models.get(f, 0) + 1
            return s.overrides[f](s, st, fr, func, args)
        g = strip_tail(func)
        for rx, h in s.models:
            m = rx.search(g)
            if m:
                r = h(s, st, fr, func, args, m)
                if r is not NotImplemented:
                    s.used_models[rx.pattern] = s.used_models.get(rx.pattern, 0) + 1; s.stats['modelled'] += 1
                    return r
        if f in s.bodies:
            s.inlined_fns[f] = s.inlined_fns.get(f, 0) + 1; s.stats['inlined'] += 1
            return s.call_body(st, s.bodies[f], args)
        raise Inconclusive('unmodelled callee: ' + func[:300])
    def closure_body(s, clo):
        name = clo.name if isinstance(clo, Closure) else clo
        if name in s._clo: return s._clo[name]
        key = name
        for n in s.bodies:
            if '{closure#' in n:
                b = s.bodies[n]
                t1 = b.local_ty.get(1, '')
                if t1.endswith(key) or t1 == key or t1.endswith(key + '>'):
                    s._clo[name] = n; return n
        raise Inconclusive('closure body not found: ' + name)
    _clo = {}
    def call_closure(s, st, fr, clo, argvals, byref=True):
        """call closure/fn value with the argument tuple; returns [(state, value)] merged where possible"""
        if isinstance(clo, RefV): clo = s.deref(st, clo)
        if isinstance(clo, FnPtr):
            name = clo.name
            m = re.match(r'^fn\(.*\) -> .* \{(.*)\}$', name)
            if m: name = m.group(1)
            return s.call(st, fr, name, list(argvals))
        if not isinstance(clo, Closure): raise Inconclusive(f'call of {type(clo).__name__}')
        bname = s.closure_body(clo)
        body = s.bodies[bname]
        t1 = body.local_ty.get(1, '')
        selfarg = s.tmp_ref(st, fr, clo) if t1.startswith('&') else clo
        if body.nargs == 1 + len(argvals): a = [selfarg] + list(argvals)
        elif body.nargs == 2: a = [selfarg, Agg(list(argvals))]
        else: raise Inconclusive(f'closure arity {bname}')
        s.inlined_fns[bname] = s.inlined_fns.get(bname, 0) + 1
        return s.call_body(st, body, a)
    def call1(s, st, fr, clo, argvals):
        """closure call that must not fork"""
        r = s.call_closure(st, fr, clo, argvals)
        if len(r) != 1: raise Inconclusive(f'closure call forks into {len(r)} states')
        return r[0]
    def log(s, st, rec):
        st.log = st.log + ((True, rec),)

def _merge_log(c, la, lb):
    if la is lb: return la
    n = 0
    while n < len(la) and n < len(lb) and la[n] is lb[n]: n += 1
    out = list(la[:n])
    for g, r in la[n:]: out.append((b_and(c, g), r))
    for g, r in lb[n:]: out.append((b_and(b_not(c), g), r))
    return tuple(out)

def strip_tail(f):
    """remove one trailing ::<...> turbofish"""
    if not f.endswith('>'): return f
    d = 0
    for j in range(len(f) - 1, -1, -1):
        ch = f[j]
        if ch == '>' and f[j - 1] != '-': d += 1
        elif ch == '<':
            d -= 1
            if d == 0:
                return f[:j - 2] if f[j - 2:j] == '::' else f
    return f

def strip_generics(f):
    """remove ::<...> turbofish segments (balanced)"""
    out = []; i = 0
    while i < len(f):
        if f.startswith('::<', i):
            d = 0; j = i + 2
            while j < len(f):
                if f[j] == '<': d += 1
                elif f[j] == '>' and f[j - 1] != '-':
                    d -= 1
                    if d == 0: break
                j += 1
            i = j + 1; continue
        out.append(f[i]); i += 1
    return ''.join(out)

def build_aliases(bodies, repo='/repo'):
    """map call-site names (module::Type::method, (Type, Trait, method)) to body names"""
    alias = {}; src_cache = {}
    for name in list(bodies.keys()) + list(getattr(bodies, 'simple', {}).keys()):
        m = re.match(r'^(.*?)<impl at (src/[^:]+):(\d+):(\d+): [^>]*>::(.*)$', name)
        if not m: continue
        mod, file, line, col, rest = m.group(1), m.group(2), int(m.group(3)), int(m.group(4)), m.group(5)
        if file not in src_cache:
            try: src_cache[file] = open(os.path.join(repo, file)).read().split('\n')
            except OSError: continue
        text = src_cache[file][line - 1][col - 1:]
        mi = re.match(r'^impl(?:<[^>]*>)?\s+(?:([\w:]+)(?:<[^>]*>)?\s+for\s+)?([\w:]+)', text)
        if not mi:
            # #[derive(Trait, ...)]: the span points at the trait name inside the attribute; the type is the struct/enum declared below it
            md = re.match(r'^(\w+)', text)
            if md and '#[derive(' in src_cache[file][line - 1]:
                ty = None
                for l2 in src_cache[file][line:line + 12]:
                    mt = re.match(r'^\s*(?:pub(?:\([^)]*\))?\s+)?(?:struct|enum)\s+(\w+)', l2)
                    if mt: ty = mt.group(1); break
                if ty:
                    alias.setdefault(f'{mod}{ty}::{rest}', name)
                    alias.setdefault((f'{mod}{ty}', md.group(1), rest), name)
            continue
        trait, ty = mi.group(1), mi.group(2)
        ty = ty.split('::')[-1]
        alias.setdefault(f'{mod}{ty}::{rest}', name)
        if trait:
            alias.setdefault((f'{mod}{ty}', trait.split('::')[-1], rest), name)
    return alias

def scan_enums(repo='/repo'):
    """enum name -> [variant names in declaration order] for the crate's own enums"""
    out = {}
    for root, _, files in os.walk(os.path.join(repo, 'src')):
        for fn in files:
            if not fn.endswith('.rs'): continue
            txt = open(os.path.join(root, fn)).read()
            txt = re.sub(r'//[^\n]*', '', txt)
            for m in re.finditer(r'\benum\s+(\w+)\s*(?:<[^>]*>)?\s*\{', txt):
                i = m.end(); d = 1; j = i
                while j < len(txt) and d:
                    if txt[j] in '{(': d += 1
                    elif txt[j] in '})': d -= 1
                    j += 1
                body = txt[i:j - 1]
                # strip nested payloads
                flat = ''; d = 0
                for ch in body:
                    if ch in '{(': d += 1
                    elif ch in '})': d -= 1
                    elif d == 0: flat += ch
                vs = []
                for part in flat.split(','):
                    part = re.sub(r'#\[[^\]]*\]', '', part).strip()
                    mm = re.match(r'^(\w+)', part)
                    if mm: vs.append(mm.group(1))
                out[m.group(1)] = vs
    return out
