"""Semantic models of the std items the crate calls (matched on the call-site path with turbofish removed)."""
import re
import z3
from .values import *
from .trig import Trig

def one(st, v): return [(st, v)]

def install(eng):
    from .symex import Inconclusive, strip_generics
    eng.trig = Trig(eng)
    T = eng.trig
    M = lambda pat, h: eng.model(pat, h)
    def D(st, x): return eng.deref(st, x)

    # ---------------- f64 ----------------
    def fabs(a): return F(z3.If(a.v >= 0, a.v, -a.v), a.nan, i_ite(zi(a.inf) != 0, 1, 0) if isz(a.inf) else (1 if a.inf else 0))
    eng.fabs = fabs
    M(r'core::f64::<impl f64>::abs$', lambda e, st, fr, f, a, m: one(st, fabs(a[0])))
    M(r'core::f64::<impl f64>::signum$', lambda e, st, fr, f, a, m: one(st, F(z3.If(z3.Or(a[0].v > 0, z3.And(a[0].v == 0, zi(a[0].inf) >= 0)) if isz(a[0].inf) or a[0].inf else a[0].v >= 0, z3.RealVal(1), z3.RealVal(-1)), a[0].nan, 0)))
    M(r'core::f64::<impl f64>::is_nan$', lambda e, st, fr, f, a, m: one(st, a[0].nan))
    M(r'core::f64::<impl f64>::is_finite$', lambda e, st, fr, f, a, m: one(st, a[0].finite()))
    M(r'core::f64::<impl f64>::is_infinite$', lambda e, st, fr, f, a, m: one(st, b_and(b_not(a[0].nan), a[0].is_inf())))
    def fmax(e, st, fr, f, a, m):
        x, y = a
        # max ignores a NaN operand
        lt = eng.binop('Lt', x, y)
        r = ite(zb(lt), y, x) if isz(lt) else (y if lt else x)
        r = ite(zb(x.nan), y, r) if isz(x.nan) else (y if x.nan else r)
        r2 = ite(zb(y.nan), x, r) if isz(y.nan) else (x if y.nan else r)
        return one(st, r2)
    def fmin(e, st, fr, f, a, m):
        x, y = a
        lt = eng.binop('Lt', y, x)
        r = ite(zb(lt), y, x) if isz(lt) else (y if lt else x)
        r = ite(zb(x.nan), y, r) if isz(x.nan) else (y if x.nan else r)
        r2 = ite(zb(y.nan), x, r) if isz(y.nan) else (x if y.nan else r)
        return one(st, r2)
    M(r'core::f64::<impl f64>::max$', fmax)
    M(r'core::f64::<impl f64>::min$', fmin)
    M(r'core::f64::<impl f64>::to_radians$', lambda e, st, fr, f, a, m: one(st, eng.binop('Mul', a[0], F(PI / 180))))
    M(r'core::f64::<impl f64>::to_degrees$', lambda e, st, fr, f, a, m: one(st, eng.binop('Mul', a[0], F(180 / PI))))
    M(r'std::f64::<impl f64>::sqrt$', lambda e, st, fr, f, a, m: one(st, F(T.sqrt(a[0].v), b_or(a[0].nan, z3.And(zi(a[0].inf) == 0, a[0].v < 0), zi(a[0].inf) < 0 if isz(a[0].inf) else a[0].inf < 0), a[0].inf)))
    def sc(e, st, fr, f, a, m):
        sv, cv = T.sincos(a[0].v); p = a[0].poison()
        which = m.group(1)
        if which == 'sin': return one(st, F(sv, p))
        if which == 'cos': return one(st, F(cv, p))
        return one(st, Agg([F(sv, p), F(cv, p)]))
    M(r'std::f64::<impl f64>::(sin_cos|sin|cos)$', sc)
    def atan2(e, st, fr, f, a, m):
        y, x = a
        # atan2 of infinite arguments is finite in IEEE; not modelled -> poison
        return one(st, F(T.atan2(y.v, x.v), b_or(y.poison(), x.poison())))
    M(r'std::f64::<impl f64>::atan2$', atan2)
    M(r'std::f64::<impl f64>::acos$', lambda e, st, fr, f, a, m: one(st, F(T.acos(a[0].v), b_or(a[0].poison(), a[0].v < -1, a[0].v > 1))))
    def rem_euclid(e, st, fr, f, a, m):
        x, y = a
        p = b_or(x.poison(), y.poison(), y.v == 0)
        k = fresh('remk', 'int'); r = fresh('reme'); mm = z3.If(y.v >= 0, y.v, -y.v)
        c = z3.Implies(z3.Not(zb(p)), z3.And(x.v == z3.ToReal(k) * mm + r, r >= 0, r < mm))
        eng.side.append(c)
        if eng.pi_rational: eng.side_lin.append(z3.Implies(z3.Not(zb(p)), z3.And(r >= 0, r < mm)))
        return one(st, F(r, p))
    M(r'std::f64::<impl f64>::rem_euclid$', rem_euclid)
    def powi(e, st, fr, f, a, m):
        n = a[1]
        if isz(n): raise Inconclusive('powi symbolic exponent')
        r = fconst(1)
        for _ in range(abs(n)): r = eng.binop('Mul', r, a[0])
        if n < 0: r = eng.binop('Div', fconst(1), r)
        return one(st, r)
    M(r'std::f64::<impl f64>::powi$', powi)
    def partial_cmp(e, st, fr, f, a, m):
        x, y = D(st, a[0]), D(st, a[1])
        lt, eq, gt = eng.binop('Lt', x, y), eng.binop('Eq', x, y), eng.binop('Gt', x, y)
        nn = b_or(lt, eq, gt)
        disc = i_ite(zb(lt), -1, i_ite(zb(eq), 0, 1))
        inner = Enum(disc, [], 'Ordering')
        if nn is True: return one(st, Some(inner))
        return one(st, Enum(i_ite(zb(nn), 1, 0), [inner], 'Option'))
    M(r'<f64 as std::cmp::PartialOrd>::partial_cmp$', partial_cmp)
    def fbin(op):
        return lambda e, st, fr, f, a, m: one(st, eng.binop(op, D(st, a[0]), D(st, a[1])))
    for tr, op in (('Sub', 'Sub'), ('Add', 'Add'), ('Mul', 'Mul'), ('Div', 'Div')):
        M(r'^<&?f64 as std::ops::%s(<&?f64>)?>::%s$' % (tr, tr.lower()), fbin(op))
    M(r'^<f64 as std::ops::Neg>::neg$', lambda e, st, fr, f, a, m: one(st, F(-a[0].v, a[0].nan, -a[0].inf)))

    def fn_call(e, st, fr, f, a, m):
        clo = a[0]; tup = a[1]
        return eng.call_closure(st, fr, clo, list(tup.items) if isinstance(tup, Agg) else [tup])
    M(r'^<.* as std::ops::(Fn|FnMut|FnOnce)<.*>>::call(_mut|_once)?$', fn_call)
    # ---------------- misc ----------------
    M(r'^std::hint::must_use$', lambda e, st, fr, f, a, m: one(st, a[0]))
    M(r'^<.* as std::clone::Clone>::clone$', lambda e, st, fr, f, a, m: one(st, D(st, a[0])) if not isinstance(D(st, a[0]), Opaque) or True else NotImplemented)
    M(r'^<.* as std::convert::Into<.*>>::into$|^<.* as std::convert::From<.*>>::from$', lambda e, st, fr, f, a, m: NotImplemented)
    M(r'^std::mem::swap$', lambda e, st, fr, f, a, m: _swap(eng, st, a))
    M(r'^std::mem::drop$|^std::mem::forget$', lambda e, st, fr, f, a, m: one(st, UNIT))
    M(r'^<.*as std::default::Default>::default$', lambda e, st, fr, f, a, m: NotImplemented)
    # formatting / printing: empty bodies
    M(r'^std::fmt::Arguments::(<.*>::)?(new|from_str|new_const|new_v1|new_v1_formatted)', lambda e, st, fr, f, a, m: one(st, Opaque('fmtargs')))
    M(r'core::fmt::rt::Argument::(<.*>::)?new_(display|debug|lower_exp)', lambda e, st, fr, f, a, m: one(st, Opaque('fmtarg')))
    M(r'^std::io::_print$|^std::io::_eprint$', lambda e, st, fr, f, a, m: one(st, UNIT))
    M(r'^std::fmt::format$|alloc::fmt::format', lambda e, st, fr, f, a, m: one(st, Opaque('string')))
    def panic_fmt(e, st, fr, f, a, m):
        eng.add_obligation('panic', st.pcz(), 'explicit panic', st.frames[fr].body.name); return []
    M(r'^std::rt::panic_fmt$|core::panicking::panic(_fmt|_explicit)?$|^std::rt::begin_panic|core::panicking::panic_display|core::panicking::unreachable_display', panic_fmt)

    # ---------------- Option / Result ----------------
    def opt_as_ref(e, st, fr, f, a, m):
        r = a[0]; o = D(st, r)
        if not isinstance(r, RefV): return one(st, o)
        return one(st, Enum(o.disc, [r.sub(i) for i in range(len(o.items))], o.tag))
    M(r'^std::option::Option::<.*>::as_ref$|^std::option::Option::<.*>::as_mut$|^std::result::Result::<.*>::as_ref$', opt_as_ref)
    def branch_enum(st, o, on_some, on_none, some_disc=1):
        """evaluate continuation per variant; merges done by the caller (call site merge)"""
        d = o.disc
        if isz(d):
            d = z3.simplify(d)
            if z3.is_int_value(d): d = d.as_long()
        if not isz(d):
            return on_some(st) if d == some_disc else on_none(st)
        out = []
        c = d == some_disc
        s1 = st.clone(); s1.assume(c); out += on_some(s1)
        s2 = st.clone(); s2.assume(z3.Not(c)); out += on_none(s2)
        return out
    eng.branch_enum = branch_enum
    def opt_map_or(e, st, fr, f, a, m):
        o, dflt, clo = a
        return branch_enum(st, o, lambda s: eng.call_closure(s, fr, clo, [o.items[0]]), lambda s: one(s, dflt))
    M(r'^std::option::Option::<.*>::map_or$', opt_map_or)
    def opt_map(e, st, fr, f, a, m):
        o, clo = a
        def some(s):
            return [(s2, Some(v)) for s2, v in eng.call_closure(s, fr, clo, [o.items[0]])]
        return branch_enum(st, o, some, lambda s: one(s, NONE()))
    M(r'^std::option::Option::<.*>::map$', opt_map)
    def opt_unwrap(e, st, fr, f, a, m):
        o = a[0]; some_disc = 0 if o.tag == 'Result' else 1
        def none(s):
            eng.add_obligation('panic', s.pcz(), 'unwrap on None/Err', s.frames[fr].body.name); return []
        return branch_enum(st, o, lambda s: one(s, o.items[0]), none, some_disc)
    M(r'^std::option::Option::<.*>::(unwrap|expect)$|^std::result::Result::<.*>::(unwrap|expect)$', opt_unwrap)
    def opt_unwrap_or(e, st, fr, f, a, m):
        o, d = a
        return branch_enum(st, o, lambda s: one(s, o.items[0]), lambda s: one(s, d), 0 if o.tag == 'Result' else 1)
    M(r'^std::option::Option::<.*>::unwrap_or$|^std::result::Result::<.*>::unwrap_or$', opt_unwrap_or)
    M(r'^std::option::Option::<.*>::is_some$', lambda e, st, fr, f, a, m: one(st, _deq(D(st, a[0]).disc, 1)))
    M(r'^std::option::Option::<.*>::is_none$', lambda e, st, fr, f, a, m: one(st, _deq(D(st, a[0]).disc, 0)))
    M(r'^std::result::Result::<.*>::is_ok$', lambda e, st, fr, f, a, m: one(st, _deq(D(st, a[0]).disc, 0)))
    M(r'^std::result::Result::<.*>::is_err$', lambda e, st, fr, f, a, m: one(st, _deq(D(st, a[0]).disc, 1)))
    def try_branch(e, st, fr, f, a, m):
        o = a[0]
        if o.tag == 'Option':
            return branch_enum(st, o, lambda s: one(s, Enum(0, [o.items[0]], 'ControlFlow')), lambda s: one(s, Enum(1, [NONE()], 'ControlFlow')))
        return branch_enum(st, o, lambda s: one(s, Enum(0, [o.items[0]], 'ControlFlow')), lambda s: one(s, Enum(1, [Err(o.items[0])], 'ControlFlow')), 0)
    M(r'^<std::(option::Option|result::Result)<.*> as std::ops::Try>::branch$', try_branch)
    M(r'^<std::(option::Option|result::Result)<.*> as std::ops::FromResidual<.*>>::from_residual$', lambda e, st, fr, f, a, m: one(st, a[0]))

    M(r'^std::result::Result::<.*>::Ok$', lambda e, st, fr, f, a, m: one(st, Ok(a[0])))
    M(r'^std::result::Result::<.*>::Err$', lambda e, st, fr, f, a, m: one(st, Err(a[0])))
    M(r'^std::option::Option::<.*>::Some$', lambda e, st, fr, f, a, m: one(st, Some(a[0])))
    # ---------------- Range ----------------
    M(r'^<std::ops::Range<\w+> as std::iter::IntoIterator>::into_iter$', lambda e, st, fr, f, a, m: one(st, a[0]))
    def range_next(e, st, fr, f, a, m):
        r = a[0]; rg = D(st, r); lo, hi = rg.items[0], rg.items[1]
        if isz(lo) or isz(hi):
            c = z3.simplify(zi(lo) < zi(hi))
            if z3.is_true(c) or z3.is_false(c): c = z3.is_true(c)
            else:
                # a range whose end is symbolic: the number of iterations is bounded by the engine's unwinding bound (obligation beyond it)
                n = getattr(rg, 'n', 0)
                s2 = st.clone(); s2.assume(z3.Not(c))
                if n >= eng.K:
                    eng.add_obligation('unwind', z3.And(st.pcz(), c), f'loop bound K={eng.K} (symbolic range)', st.frames[fr].body.name)
                    return [(s2, NONE())]
                nr = RangeV([z3.simplify(zi(lo) + 1) if isz(lo) else lo + 1, hi], 'Range'); nr.n = n + 1
                s1 = st.clone(); s1.assume(c); eng.write_ref(s1, r, nr)
                return [(s1, Some(lo)), (s2, NONE())]
        else: c = lo < hi
        if c:
            eng.write_ref(st, r, RangeV([lo + 1 if not isz(lo) else z3.simplify(lo + 1), hi], 'Range')); return one(st, Some(lo))
        return one(st, NONE())
    M(r'^<std::ops::Range<\w+> as std::iter::Iterator>::next$', range_next)
    M(r'^std::ops::RangeInclusive::<.*>::start$', lambda e, st, fr, f, a, m: one(st, a[0].sub(0)))
    M(r'^std::ops::RangeInclusive::<.*>::end$', lambda e, st, fr, f, a, m: one(st, a[0].sub(1)))
    M(r'^std::ops::RangeInclusive::<.*>::new$', lambda e, st, fr, f, a, m: one(st, RangeV([a[0], a[1], False], 'RangeInclusive')))

    # ---------------- Vec / slices / arrays ----------------
    M(r'^std::vec::Vec::<.*>::(new|with_capacity)$', lambda e, st, fr, f, a, m: one(st, VecV([])))
    def vec_push(e, st, fr, f, a, m):
        v = D(st, a[0]); eng.write_ref(st, a[0], v.push(a[1])); return one(st, UNIT)
    M(r'^std::vec::Vec::<.*>::push$', vec_push)
    def vec_mut(name):
        def h(e, st, fr, f, a, m):
            outs = []
            for s0 in densify(st, a[0]):
                v = D(s0, a[0]); items = list(v.items)
                def idx(x):
                    if isz(x):
                        x = z3.simplify(x)
                        if not z3.is_int_value(x): raise Inconclusive('symbolic Vec index')
                        return x.as_long()
                    return int(x)
                if name == 'pop':
                    if not items: outs.append((s0, NONE())); continue
                    r = items.pop(); eng.write_ref(s0, a[0], VecV.dense(items)); outs.append((s0, Some(r))); continue
                if name == 'clear': eng.write_ref(s0, a[0], VecV([])); outs.append((s0, UNIT)); continue
                if name == 'truncate': eng.write_ref(s0, a[0], VecV.dense(items[:idx(a[1])])); outs.append((s0, UNIT)); continue
                if name == 'reverse': eng.write_ref(s0, a[0], VecV.dense(items[::-1])); outs.append((s0, UNIT)); continue
                if name == 'insert':
                    i = idx(a[1]); items.insert(i, a[2]); eng.write_ref(s0, a[0], VecV.dense(items)); outs.append((s0, UNIT)); continue
                if name == 'swap':
                    i, j_ = idx(a[1]), idx(a[2]); items[i], items[j_] = items[j_], items[i]; eng.write_ref(s0, a[0], VecV.dense(items)); outs.append((s0, UNIT)); continue
                i = idx(a[1])
                if i >= len(items):
                    eng.add_obligation('panic', s0.pcz(), f'{name} index out of bounds', s0.frames[fr].body.name); continue
                if name == 'remove': r = items.pop(i)
                else:
                    r = items[i]; items[i] = items[-1]; items.pop()
                eng.write_ref(s0, a[0], VecV.dense(items)); outs.append((s0, r))
            return outs
        return h
    for nm in ('swap_remove', 'remove', 'pop', 'clear', 'truncate', 'insert', 'reverse'):
        M(r'^std::vec::Vec::<.*>::%s$' % nm, vec_mut(nm))
    M(r'core::slice::<impl \[.*\]>::(swap|reverse)$', lambda e, st, fr, f, a, m: vec_mut(m.group(1))(e, st, fr, f, a, m))
    def vec_retain(e, st, fr, f, a, m):
        outs = []
        for s0 in densify(st, a[0]):
            v = D(s0, a[0]); ents = []
            cur = s0
            for x in v.items:
                cur, keep = eng.call1(cur, fr, a[1], [eng.tmp_ref(cur, fr, x)]); ents.append((keep, x))
            eng.write_ref(cur, a[0], VecV(ents)); outs.append((cur, UNIT))
        return outs
    M(r'^std::vec::Vec::<.*>::retain$', vec_retain)
    def dense(st, v, what):
        if isinstance(v, VecV) and not v.is_dense(): raise Inconclusive(f'{what} of guarded Vec')
        return v
    def densify(st, ref):
        """split the state on the guards of a guarded Vec so that each resulting state holds a dense Vec (at most 2^4 states)"""
        v = D(st, ref)
        if not isinstance(v, VecV) or v.is_dense(): return [st]
        idx = [i for i, (g, _) in enumerate(v.ents) if g is not True]
        if len(idx) > 4: raise Inconclusive('too many guarded Vec entries to split')
        outs = []
        import itertools as _it
        for bits in _it.product((True, False), repeat=len(idx)):
            s2 = st.clone(); keep = dict(zip(idx, bits))
            for i, b in keep.items(): s2.assume(v.ents[i][0] if b else b_not(v.ents[i][0]))
            if not eng.feasible(s2.pc): continue
            eng.write_ref(s2, ref, VecV([(True, x) for i, (g, x) in enumerate(v.ents) if keep.get(i, True)]))
            outs.append(s2)
        return outs
    eng.densify = densify
    def vlen(e, st, fr, f, a, m):
        v = D(st, a[0])
        if isinstance(v, VecV) and not v.is_dense():
            return [(s2, len(D(s2, a[0]).items)) for s2 in densify(st, a[0])]
        return one(st, len(v.items))
    M(r'^std::vec::Vec::<.*>::len$|core::slice::<impl \[.*\]>::len$', vlen)
    def vempty(e, st, fr, f, a, m):
        v = D(st, a[0])
        if isinstance(v, VecV) and not v.is_dense(): return one(st, b_not(b_or(*[g for g, _ in v.ents])))
        return one(st, len(v.items) == 0)
    M(r'^std::vec::Vec::<.*>::is_empty$|core::slice::<impl \[.*\]>::is_empty$', vempty)
    def vec_extend(e, st, fr, f, a, m):
        v = D(st, a[0]); src = a[1]
        if isinstance(src, RefV): src = D(st, src)
        ents = list(v.ents)
        for g, x in (src.ents if isinstance(src, (VecV, IterV)) else [(True, y) for y in src.items]):
            ents.append((g, D(st, x) if isinstance(x, RefV) and '&' in f else x))
        eng.write_ref(st, a[0], VecV(ents)); return one(st, UNIT)
    M(r'^<std::vec::Vec<.*> as std::iter::Extend<.*>>::extend$', vec_extend)
    def vindex(e, st, fr, f, a, m):
        r, i = a; v = dense(st, D(st, r), 'index')
        if isz(i):
            i = z3.simplify(i)
            if not z3.is_int_value(i): raise Inconclusive('symbolic Vec index')
            i = i.as_long()
        if isinstance(i, RangeV): raise Inconclusive('slice range index')
        if i >= len(v.items) or i < 0:
            eng.add_obligation('panic', st.pcz(), 'index out of bounds', st.frames[fr].body.name); return []
        return one(st, r.sub(i))
    M(r'^<std::vec::Vec<.*> as std::ops::Index(Mut)?<usize>>::index(_mut)?$', vindex)
    M(r'^<std::vec::Vec<.*> as std::ops::Deref(Mut)?>::deref(_mut)?$', lambda e, st, fr, f, a, m: one(st, a[0]))
    M(r'^<std::string::String as std::ops::Deref>::deref$', lambda e, st, fr, f, a, m: one(st, a[0]))
    def slice_iter(e, st, fr, f, a, m):
        r = a[0]; v = D(st, r)
        if isinstance(v, VecV): return one(st, IterV([(g, r.sub(i)) for i, (g, _) in enumerate(v.ents)], 'ref'))
        return one(st, IterV([(True, r.sub(i)) for i in range(len(v.items))], 'ref'))
    M(r'core::slice::<impl \[.*\]>::iter(_mut)?$|^std::slice::<impl \[.*\]>::iter(_mut)?$|^std::vec::Vec::<.*>::iter(_mut)?$', slice_iter)
    M(r'^<&(mut )?std::vec::Vec<.*> as std::iter::IntoIterator>::into_iter$|^<&(mut )?\[.*\] as std::iter::IntoIterator>::into_iter$', slice_iter)
    def owned_into_iter(e, st, fr, f, a, m):
        v = a[0]
        if isinstance(v, VecV): return one(st, IterV(v.ents, 'val'))
        if isinstance(v, IterV): return one(st, v)
        return one(st, IterV([(True, x) for x in v.items], 'val'))
    M(r'^<\[.*\] as std::iter::IntoIterator>::into_iter$|^<std::vec::Vec<.*> as std::iter::IntoIterator>::into_iter$', owned_into_iter)
    M(r'^<.* as std::iter::IntoIterator>::into_iter$', lambda e, st, fr, f, a, m: one(st, a[0]) if isinstance(a[0], (IterV, RangeV)) else NotImplemented)
    def it_next(e, st, fr, f, a, m):
        r = a[0]; it = D(st, r)
        if not isinstance(it, IterV): return NotImplemented
        if not it.ents: return one(st, NONE())
        g, x = it.ents[0]
        if g is not True:
            # fork on the guard of the head element
            s1 = st.clone(); s1.assume(g); eng.write_ref(s1, r, IterV(it.ents[1:], it.kind))
            s2 = st.clone(); s2.assume(b_not(g)); eng.write_ref(s2, r, IterV(it.ents[1:], it.kind))
            return [(s1, Some(x))] + it_next(e, s2, fr, f, a, m)
        eng.write_ref(st, r, IterV(it.ents[1:], it.kind)); return one(st, Some(x))
    M(r'^<.* as std::iter::Iterator>::next$', it_next)
    M(r'^<.* as std::iter::Iterator>::enumerate$', lambda e, st, fr, f, a, m: one(st, IterV([(g, Agg([i, x])) for i, (g, x) in enumerate(_need_dense(a[0]).ents)], 'val')))
    def it_zip(e, st, fr, f, a, m):
        x, y = _need_dense(a[0]), a[1]
        if isinstance(y, RefV):
            yv = D(st, y)
            y = yv if isinstance(yv, IterV) else IterV([(True, y.sub(i)) for i in range(len(yv.items))], 'ref')      # zipping with &[T] / &Vec<T> iterates by reference
        if not isinstance(y, IterV): y = IterV([(True, v) for v in y.items], 'val')
        y = _need_dense(y)
        return one(st, IterV([(True, Agg([p[1], q[1]])) for p, q in zip(x.ents, y.ents)], 'val'))
    M(r'^<.* as std::iter::Iterator>::zip$', it_zip)
    def it_map(e, st, fr, f, a, m):
        it, clo = a; out = []
        if isinstance(it, RangeV) and not isz(it.items[0]) and not isz(it.items[1]): it = IterV([(True, i) for i in range(it.items[0], it.items[1])], 'val')
        if not isinstance(it, IterV): return NotImplemented
        for g, x in it.ents:
            st, v = eng.call1(st, fr, clo, [x]); out.append((g, v))
        return one(st, IterV(out, 'val'))
    M(r'^<.* as std::iter::Iterator>::map$', it_map)
    def it_filter(e, st, fr, f, a, m):
        it, clo = a; out = []
        for g, x in it.ents:
            st, keep = eng.call1(st, fr, clo, [eng.tmp_ref(st, fr, x)]); out.append((b_and(g, keep), x))
        return one(st, IterV(out, it.kind))
    M(r'^<.* as std::iter::Iterator>::filter$', it_filter)
    def it_filter_map(e, st, fr, f, a, m):
        it, clo = a; out = []
        for g, x in it.ents:
            st, o = eng.call1(st, fr, clo, [x])
            out.append((b_and(g, _deq(o.disc, 1)), o.items[0] if o.items else None))
        return one(st, IterV(out, 'val'))
    M(r'^<.* as std::iter::Iterator>::filter_map$', it_filter_map)
    M(r'^<.* as std::iter::Iterator>::(cloned|copied)$', lambda e, st, fr, f, a, m: one(st, IterV([(g, D(st, x)) for g, x in a[0].ents], 'val')))
    def it_collect(e, st, fr, f, a, m):
        it = a[0]
        if not isinstance(it, IterV): return NotImplemented
        if re.search(r'collect::<std::vec::Vec<', f) or re.search(r'collect::<Vec<', f): return one(st, VecV(it.ents))
        return NotImplemented
    M(r'^<.* as std::iter::Iterator>::collect$', it_collect)
    def it_sum(e, st, fr, f, a, m):
        it = _need_dense(a[0]); acc = None
        for _, x in it.ents:
            v = D(st, x)
            acc = v if acc is None else (eng.binop('Add', acc, v) if isinstance(v, F) else (acc + v if not isz(acc) and not isz(v) else zi(acc) + zi(v)))
        if acc is None: acc = 0 if re.search(r'sum::<(usize|u\d+|i\d+|isize)>', f) else fconst(0)
        return one(st, acc)
    M(r'^<.* as std::iter::Iterator>::sum$', it_sum)
    def it_fold(e, st, fr, f, a, m):
        it, acc, clo = a
        for _, x in _need_dense(it).ents: st, acc = eng.call1(st, fr, clo, [acc, x])
        return one(st, acc)
    M(r'^<.* as std::iter::Iterator>::fold$', it_fold)
    def it_all_any(e, st, fr, f, a, m):
        it = D(st, a[0]); clo = a[1]; is_all = m.group(1) == 'all'
        acc = True if is_all else False
        for g, x in it.ents:
            st, r = eng.call1(st, fr, clo, [x])
            # short-circuit evaluation is irrelevant for pure predicates
            acc = b_and(acc, b_or(b_not(g), r)) if is_all else b_or(acc, b_and(g, r))
        eng.write_ref(st, a[0], IterV([], it.kind))
        return one(st, acc)
    M(r'^<.* as std::iter::Iterator>::(all|any)$', it_all_any)
    def it_for_each(e, st, fr, f, a, m):
        it, clo = a
        if all(g is True for g, _ in it.ents):
            for _, x in it.ents: st, _r = eng.call1(st, fr, clo, [x])
            return one(st, UNIT)
        # guarded entries (outcomes of different length were merged): an entry takes part exactly when its guard holds
        cur = [st]
        for g, x in it.ents:
            nxt = []
            for s0 in cur:
                if g is True: nxt += [s1 for s1, _r in eng.call_closure(s0, fr, clo, [x])]; continue
                if g is False: nxt.append(s0); continue
                sa = s0.clone(); sa.assume(g); nxt += [s1 for s1, _r in eng.call_closure(sa, fr, clo, [x])]
                sb = s0.clone(); sb.assume(z3.Not(zb(g))); nxt.append(sb)
            cur = nxt
        return [(s0, UNIT) for s0 in cur]
    M(r'^<.* as std::iter::Iterator>::for_each$', it_for_each)
    def vec_from_array(e, st, fr, f, a, m):
        return one(st, VecV.dense(list(a[0].items)))
    M(r'^<std::vec::Vec<.*> as std::convert::From<\[.*\]>>::from$', vec_from_array)
    def sort_by(e, st, fr, f, a, m):
        """slice::sort_by as a stable insertion network driven by the REAL comparator closure (std's algorithm is trusted to sort
        according to the comparator; what is executed symbolically is the comparator)"""
        ref, clo = a
        outs = []
        for s0 in densify(st, ref):
            items = list(D(s0, ref).items); n = len(items); cur = s0
            for i in range(1, n):
                for j in range(i, 0, -1):
                    ra = eng.tmp_ref(cur, fr, items[j - 1]); rb = eng.tmp_ref(cur, fr, items[j])
                    cur, o = eng.call1(cur, fr, clo, [ra, rb])
                    gt = _deq(o.disc, 1)
                    if gt is True or (isz(gt) and z3.is_true(gt)): items[j - 1], items[j] = items[j], items[j - 1]
                    elif gt is False or (isz(gt) and z3.is_false(gt)): pass
                    else: items[j - 1], items[j] = ite(gt, items[j], items[j - 1]), ite(gt, items[j - 1], items[j])
            eng.write_ref(cur, ref, VecV.dense(items)); outs.append((cur, UNIT))
        return outs
    M(r'^std::slice::<impl \[.*\]>::sort_by$|core::slice::<impl \[.*\]>::sort_by$|core::slice::<impl \[.*\]>::sort_unstable_by$', sort_by)
    def slice_get(e, st, fr, f, a, m):
        v = D(st, a[0]); i = a[1]
        if isz(i): raise Inconclusive('symbolic index in get')
        if isinstance(v, VecV) and not v.is_dense(): raise Inconclusive('get on a guarded Vec')
        return one(st, Some(a[0].sub(int(i))) if 0 <= int(i) < len(v.items) else NONE())
    M(r'core::slice::<impl \[.*\]>::get$|^std::vec::Vec::<.*>::get$', slice_get)
    def arr_index(e, st, fr, f, a, m):
        r, i = a
        if isz(i):
            i = z3.simplify(i)
            if not z3.is_int_value(i): raise Inconclusive('symbolic array index')
            i = i.as_long()
        return one(st, r.sub(i))
    M(r'^<\[.*\] as std::ops::Index(Mut)?<usize>>::index(_mut)?$', arr_index)
    def from_fn(e, st, fr, f, a, m):
        n = int(re.search(r'from_fn::<.*, (\d+), ', f).group(1)); out = []
        for i in range(n):
            st, v = eng.call1(st, fr, a[0], [i]); out.append(v)
        return one(st, Agg(out))
    M(r'^std::array::from_fn', from_fn)
    # Box / Arc
    # vec![a, b, ..] : Box::new_uninit(), write of the array through the raw pointer, box_assume_init_into_vec_unsafe
    def new_uninit(e, st, fr, f, a, m):
        k = ('uninit', next(e._tmpc)); st.frames[0].locals[k] = Agg([UNIT, Agg([Agg([UNIT])])], 'MaybeUninit')
        return one(st, Agg([Agg([RefV(0, k, ())])], 'uninitbox'))
    M(r'^std::boxed::Box::<\[.*\]>::new_uninit$', new_uninit)
    def into_vec(e, st, fr, f, a, m):
        cell = D(st, a[0].items[0].items[0]); arr = cell.items[1].items[0].items[0]
        if arr is UNIT: raise Inconclusive('vec! from an unwritten box')
        return one(st, VecV.dense(list(arr.items)))
    M(r'^std::boxed::box_assume_init_into_vec_unsafe', into_vec)
    M(r'^std::(boxed::Box|sync::Arc|rc::Rc)::<.*>::new$', lambda e, st, fr, f, a, m: one(st, BoxV([a[0]])))
    M(r'^<std::(boxed::Box|sync::Arc|rc::Rc)<.*> as std::ops::Deref>::deref$', lambda e, st, fr, f, a, m: one(st, a[0].sub(0)))
    M(r'^<std::(boxed::Box|sync::Arc|rc::Rc)<.*> as std::convert::AsRef<.*>>::as_ref$', lambda e, st, fr, f, a, m: one(st, a[0].sub(0)))

def _deq(d, k):
    if isz(d): return z3.simplify(d == k) if True else None
    return d == k
def _need_dense(it):
    from .symex import Inconclusive
    if not all(g is True for g, _ in it.ents): raise Inconclusive('guarded iterator where a dense one is needed')
    return it
def _swap(eng, st, a):
    x, y = eng.read_ref(st, a[0]), eng.read_ref(st, a[1])
    eng.write_ref(st, a[0], y); eng.write_ref(st, a[1], x); return [(st, UNIT)]
