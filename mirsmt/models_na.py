"""Mathematical models of the nalgebra items the crate uses: vectors/matrices as lists of floats,
rotations and unit quaternions BOTH as 3x3 matrices, isometries as (R, t)."""
import re, z3
from .values import *

class Mat:
    """r x c matrix of F, row-major in .d ; MIR field access (.0 = data) is not used: Deref gives x/y/z views"""
    __slots__ = ('r', 'c', 'd', 'tag')
    def __init__(s, r, c, d, tag='mat'): s.r, s.c, s.d, s.tag = r, c, tuple(d), tag
    def at(s, i, j): return s.d[i * s.c + j]
    @property
    def items(s): return s.d
    def with_item(s, k, v):
        l = list(s.d); l[k] = v; return Mat(s.r, s.c, l, s.tag)
    def same(s, o): return (s.r, s.c) == (o.r, o.c) and all(same(x, y) for x, y in zip(s.d, o.d))
    def ite(s, c, o):
        if (s.r, s.c) != (o.r, o.c): raise Unmergeable('mat shape')
        return Mat(s.r, s.c, [ite(c, x, y) for x, y in zip(s.d, o.d)], s.tag)
    def __repr__(s): return f'Mat{s.r}x{s.c}'
class Iso:
    """isometry x -> R x + t ; field 0 = rotation, field 1 = translation (nalgebra's declaration order)"""
    __slots__ = ('R', 't')
    def __init__(s, R, t): s.R, s.t = R, t
    @property
    def items(s): return (s.R, Agg([s.t], 'Tr3'))
    def with_item(s, k, v): return Iso(v, s.t) if k == 0 else Iso(s.R, v.items[0])
    def same(s, o): return s.R.same(o.R) and s.t.same(o.t)
    def ite(s, c, o): return Iso(s.R.ite(c, o.R), s.t.ite(c, o.t))
    def __repr__(s): return 'Iso'

def fc(x): return fconst(x)
def unit_vec(i): return Mat(3, 1, [fc(1 if k == i else 0) for k in range(3)], 'unit')
def ident3(): return Mat(3, 3, [fc(1 if i == j else 0) for i in range(3) for j in range(3)], 'rot')
def zero3(): return Mat(3, 1, [fc(0)] * 3)

def install(eng):
    from .symex import Inconclusive, fop, fcmp
    T = eng.trig
    def fmul(a, b): return fop('Mul', a, b)
    def fadd(a, b): return fop('Add', a, b)
    def fsub(a, b): return fop('Sub', a, b)
    def fneg(a): return F(-a.v, a.nan, -a.inf)
    def is0(a): return not isz(a.nan) and not a.nan and z3.is_rational_value(a.v) and a.v.as_fraction() == 0 and not isz(a.inf) and a.inf == 0
    def is1(a): return not isz(a.nan) and not a.nan and z3.is_rational_value(a.v) and a.v.as_fraction() == 1 and not isz(a.inf) and a.inf == 0
    def smul(a, b):
        if is0(a) or is0(b): return fc(0)        # 0 * x = 0 (x finite; poisoned x is outside the matrix identities)
        if is1(a): return b
        if is1(b): return a
        return fmul(a, b)
    def sadd(a, b):
        if is0(a): return b
        if is0(b): return a
        return fadd(a, b)
    def mmul(A, B):
        assert A.c == B.r, (A.r, A.c, B.r, B.c)
        out = []
        for i in range(A.r):
            for j in range(B.c):
                acc = fc(0)
                for k in range(A.c): acc = sadd(acc, smul(A.at(i, k), B.at(k, j)))
                out.append(acc)
        return Mat(A.r, B.c, out, 'rot' if A.tag == 'rot' and B.tag == 'rot' else 'mat')
    def madd(A, B): return Mat(A.r, A.c, [sadd(x, y) for x, y in zip(A.d, B.d)])
    def msub(A, B): return Mat(A.r, A.c, [fsub(x, y) for x, y in zip(A.d, B.d)])
    def mscale(k, A): return Mat(A.r, A.c, [smul(k, x) for x in A.d])
    def transpose(A): return Mat(A.c, A.r, [A.at(j, i) for i in range(A.c) for j in range(A.r)], A.tag)
    def cross(a, b):
        x = a.d; y = b.d
        return Mat(3, 1, [fsub(smul(x[1], y[2]), smul(x[2], y[1])), fsub(smul(x[2], y[0]), smul(x[0], y[2])), fsub(smul(x[0], y[1]), smul(x[1], y[0]))])
    def dot(a, b):
        acc = fc(0)
        for x, y in zip(a.d, b.d): acc = sadd(acc, smul(x, y))
        return acc
    def norm(a):
        n2 = dot(a, a)
        hook = getattr(eng, 'sqrt_hook', None)
        if hook is not None:
            r = hook(n2.v)
            if r is not None: return F(r, n2.poison())
        return F(T.sqrt(n2.v), n2.poison())
    def rot_axis(axis, s, c):
        z, o = fc(0), fc(1)
        if axis == 2: return Mat(3, 3, [c, fneg(s), z, s, c, z, z, z, o], 'rot')
        if axis == 1: return Mat(3, 3, [c, z, s, z, o, z, fneg(s), z, c], 'rot')
        return Mat(3, 3, [o, z, z, z, c, fneg(s), z, s, c], 'rot')
    def iso_mul(A, B): return Iso(mmul(A.R, B.R), madd(A.t, mmul(A.R, B.t)))
    def iso_inv(A):
        Rt = transpose(A.R); return Iso(Rt, mscale(fc(-1), mmul(Rt, A.t)))
    eng.na = dict(mmul=mmul, madd=madd, msub=msub, mscale=mscale, transpose=transpose, cross=cross, dot=dot, norm=norm, rot_axis=rot_axis,
                  iso_mul=iso_mul, iso_inv=iso_inv, Mat=Mat, Iso=Iso)

    V3 = r'(?:\w+::)*na::Matrix<f64, (?:\w+::)*na::Const<3>, (?:\w+::)*na::Const<1>, (?:\w+::)*na::ArrayStorage<f64, 3, 1>>'
    M3 = r'(?:\w+::)*na::Matrix<f64, (?:\w+::)*na::Const<3>, (?:\w+::)*na::Const<3>, (?:\w+::)*na::ArrayStorage<f64, 3, 3>>'
    NA = r'(?:\w+::)*(?:na|nalgebra)::'
    def norm_name(f):
        f = re.sub(r'(?:[\w]+::)*?(?:na|nalgebra)::', 'na::', f)
        f = f.replace('na::base::dimension::', 'na::').replace('na::base::', 'na::').replace('na::geometry::', 'na::')
        for n, (r, c) in {'V3': (3, 1), 'M3': (3, 3), 'V6': (6, 1), 'M6': (6, 6)}.items():
            f = f.replace(f'na::Matrix<f64, na::Const<{r}>, na::Const<{c}>, na::ArrayStorage<f64, {r}, {c}>>', n)
        f = f.replace('na::Isometry<f64, na::Unit<na::Quaternion<f64>>, 3>', 'Iso3').replace('na::Isometry::<f64, na::Unit<na::Quaternion<f64>>, 3>', 'Iso3')
        f = f.replace('na::Unit<na::Quaternion<f64>>', 'UQ').replace('na::Translation<f64, 3>', 'Tr3').replace('na::Translation::<f64, 3>', 'Tr3')
        f = f.replace('na::Rotation<f64, 3>', 'Rot3').replace('na::Rotation::<f64, 3>', 'Rot3').replace('na::Unit<V3>', 'UV3').replace('na::Point<f64, 3>', 'P3').replace('na::OPoint<f64, na::Const<3>>', 'P3')
        return f
    eng.na_norm = norm_name
    def D(st, x): return eng.deref(st, x)
    one = lambda st, v: [(st, v)]
    def h(e, st, fr, func, args, m):
        f = norm_name(func)
        from .symex import strip_tail
        g = strip_tail(f)
        a = args
        # --- construction ---
        if re.search(r'na::construction::<impl M3>::new$|na::construction::<impl na::Matrix<f64, na::Const<3>, na::Const<3>.*>::new$', g): return one(st, Mat(3, 3, a))
        if re.search(r'na::construction::<impl V3>::new$|na::construction::<impl na::Matrix<f64, na::Const<3>, na::Const<1>.*>::new$', g): return one(st, Mat(3, 1, a))
        if re.search(r'na::construction::<impl .*>::(x|y|z)_axis$', g): return one(st, unit_vec('xyz'.index(re.search(r'(x|y|z)_axis$', g).group(1))))
        if re.search(r'na::construction::<impl V3>::zeros$|<impl na::Matrix<f64, na::Const<3>, na::Const<1>.*>::zeros$', g): return one(st, zero3())
        if re.search(r'na::construction::<impl M3>::identity$', g): return one(st, ident3())
        if g.endswith('UV3::into_inner') or g.endswith('UV3::new_normalize') or re.search(r'na::Unit::<V3>::(into_inner|new_normalize|new_unchecked)$', g):
            v = a[0]
            if isinstance(v, Mat) and v.tag == 'unit': return one(st, v)
            if g.endswith('into_inner') or g.endswith('new_unchecked'): return one(st, v)
            n = norm(v); return one(st, Mat(3, 1, [fop('Div', x, n) for x in v.d], 'unit'))
        if re.search(r'^<Tr3 as std::ops::Deref(Mut)?>::deref(_mut)?$', g): return one(st, a[0].sub(0))
        if re.search(r'^<(UV3|UQ|V3|M3|na::Quaternion<f64>|P3) as std::ops::Deref(Mut)?>::deref(_mut)?$', g): return one(st, a[0])
        if g == 'Rot3::from_matrix_unchecked': return one(st, Mat(3, 3, a[0].d, 'rot'))
        if re.search(r'na::quaternion_construction::<impl UQ>::from_rotation_matrix$', g): return one(st, D(st, a[0]))
        if re.search(r'na::quaternion::<impl UQ>::to_rotation_matrix$', g): return one(st, D(st, a[0]))
        if re.search(r'na::quaternion_construction::<impl UQ>::identity$|na::rotation_specialization::<impl Rot3>::identity$|Rot3::identity$', g): return one(st, ident3())
        if re.search(r'^<Tr3 as std::convert::From<V3>>::from$', g): return one(st, Agg([a[0]], 'Tr3'))
        if re.search(r'^<(V3|V6) as std::convert::Into<\[f64; \d\]>>::into$', g): return one(st, Agg(list(a[0].d)))
        if re.search(r'^<Tr3 as std::convert::From<\[f64; 3\]>>::from$', g): return one(st, Agg([Mat(3, 1, list(a[0].items))], 'Tr3'))
        if re.search(r'^<V3 as std::convert::From<\[f64; 3\]>>::from$', g): return one(st, Mat(3, 1, list(a[0].items)))
        if re.search(r'(V3|V6|M3|M6)::iter$|na::Matrix::<f64, na::Const<\d>, na::Const<\d>, na::ArrayStorage<f64, \d, \d>>::iter$', g):
            A = D(st, a[0]); r0 = a[0]
            # nalgebra iterates column-major
            return one(st, IterV([(True, (r0.sub(i * A.c + j) if isinstance(r0, RefV) else A.at(i, j))) for j in range(A.c) for i in range(A.r)], 'ref' if isinstance(r0, RefV) else 'val'))
        mfi = re.search(r'(V3|V6|M3|M6)::from_iterator|construction::<impl (V3|V6|M3|M6)>::from_iterator|construction::<impl na::Matrix<f64, na::Const<(\d)>, na::Const<(\d)>.*>::from_iterator', g)
        if mfi:
            if mfi.group(3): r_, c_ = int(mfi.group(3)), int(mfi.group(4))
            else: r_, c_ = {'V3': (3, 1), 'V6': (6, 1), 'M3': (3, 3), 'M6': (6, 6)}[mfi.group(1) or mfi.group(2)]
            it = a[0]
            if not hasattr(it, 'ents') or any(g_ is not True for g_, _ in it.ents) or len(it.ents) < r_ * c_: raise Inconclusive('from_iterator over a guarded / short iterator')
            vals = [D(st, x) if isinstance(x, RefV) else x for _, x in it.ents[:r_ * c_]]
            return one(st, Mat(r_, c_, [vals[j * r_ + i] for i in range(r_) for j in range(c_)]))      # column-major fill
        if re.search(r'na::translation_construction::<impl Tr3>::new$', g): return one(st, Agg([Mat(3, 1, a)], 'Tr3'))
        if re.search(r'na::translation_construction::<impl Tr3>::identity$', g): return one(st, Agg([zero3()], 'Tr3'))
        if g == 'Iso3::from_parts': return one(st, Iso(a[1], a[0].items[0]))
        if re.search(r'na::isometry_construction::<impl Iso3>::identity$', g): return one(st, Iso(ident3(), zero3()))
        if re.search(r'na::isometry_construction::<impl Iso3>::translation$', g): return one(st, Iso(ident3(), Mat(3, 1, a)))
        if re.search(r'from_axis_angle$', g):
            ax = D(st, a[0])
            if not (isinstance(ax, Mat) and ax.tag == 'unit'): raise Inconclusive('from_axis_angle about a non-coordinate axis')
            axis = [i for i in range(3) if is1(ax.d[i])][0]
            sv, cv = T.sincos(a[1].v); p = a[1].poison()
            return one(st, rot_axis(axis, F(sv, p), F(cv, p)))
        if re.search(r'^<&?P3 as std::ops::Sub(<&?P3>)?>::sub$', g): return one(st, msub(D(st, a[0]), D(st, a[1])))
        if re.search(r'^<&?P3 as std::ops::(Add|Sub)<&?V3>>::(add|sub)$', g): return one(st, (madd if 'Add' in g else msub)(D(st, a[0]), D(st, a[1])))
        if re.search(r'from_columns$', g):
            cols = D(st, a[0]).items
            return one(st, Mat(3, 3, [D(st, cols[j]).d[i] for i in range(3) for j in range(3)]))
        if re.search(r'^<V3 as std::convert::Into<Tr3>>::into$', g): return one(st, Agg([a[0]], 'Tr3'))
        if re.search(r'^<Tr3 as std::convert::Into<Tr3>>::into$', g): return one(st, a[0])
        if re.search(r'<impl UQ>::transform_point$|Rot3::transform_point$', g): return one(st, Mat(3, 1, mmul(D(st, a[0]), D(st, a[1])).d))
        if re.search(r'<impl P3>::new$|P3::new$|OPoint::<.*>::new$', g): return one(st, Mat(3, 1, a))
        if re.search(r'^<P3 as std::ops::Deref(Mut)?>::deref(_mut)?$', g): return one(st, a[0])
        if re.search(r'<impl P3>::origin$', g): return one(st, zero3())
        if re.search(r'na::construction::<impl M6>::zeros$|<impl na::Matrix<f64, na::Const<6>, na::Const<6>.*>::zeros$', g): return one(st, Mat(6, 6, [fc(0)] * 36))
        if re.search(r'na::construction::<impl V6>::new$|<impl na::Matrix<f64, na::Const<6>, na::Const<1>.*>::new$', g): return one(st, Mat(6, 1, a))
        if re.search(r'na::matrix_view::<impl .*>::fixed_view_mut$', g):
            dims = re.search(r'fixed_view_mut::<(\d+), (\d+)>', f); return one(st, Opaque('view', data=(a[0], int(a[1]), int(a[2]), int(dims.group(1)), int(dims.group(2)))))
        if re.search(r'na::Matrix::<.*>::copy_from', g) or g.endswith('::copy_from'):
            view = D(st, a[0]) if isinstance(a[0], RefV) else a[0]; src = D(st, a[1])
            if isinstance(view, Opaque) and view.kind == 'view':
                ref, r0, c0, nr, nc = view.data; Mx = D(st, ref); dd = list(Mx.d)
                for i in range(nr):
                    for j in range(nc): dd[(r0 + i) * Mx.c + (c0 + j)] = src.at(i, j)
                e.write_ref(st, ref, Mat(Mx.r, Mx.c, dd, Mx.tag)); return one(st, UNIT)
        if re.search(r'^<&?M6 as std::ops::Mul<&?V6>>::mul$', g): return one(st, Mat(6, 1, mmul(D(st, a[0]), D(st, a[1])).d))
        if re.search(r'^<&?M6 as std::ops::Mul(<&?M6>)?>::mul$', g): return one(st, mmul(D(st, a[0]), D(st, a[1])))
        # --- arithmetic ---
        if re.search(r'^<&?(M3|Rot3|UQ) as std::ops::Mul(<&?(M3|Rot3|UQ)>)?>::mul$', g): return one(st, mmul(D(st, a[0]), D(st, a[1])))
        if re.search(r'^<&?(M3|Rot3|UQ) as std::ops::Mul<&?(V3|UV3)>>::mul$', g): return one(st, Mat(3, 1, mmul(D(st, a[0]), D(st, a[1])).d))
        if re.search(r'^<f64 as std::ops::Mul<&?(M3|V3)>>::mul$', g): return one(st, mscale(a[0], D(st, a[1])))
        if re.search(r'^<&?(M3|V3) as std::ops::Mul<f64>>::mul$', g): return one(st, mscale(a[1], D(st, a[0])))
        if re.search(r'^<&?(M3|V3) as std::ops::Div<f64>>::div$', g):
            A = D(st, a[0]); return one(st, Mat(A.r, A.c, [fop('Div', x, a[1]) for x in A.d]))
        if re.search(r'^<&?(V3|M3) as std::ops::Add(<&?(V3|M3)>)?>::add$', g): return one(st, madd(D(st, a[0]), D(st, a[1])))
        if re.search(r'^<&?(V3|M3) as std::ops::Sub(<&?(V3|M3)>)?>::sub$', g): return one(st, msub(D(st, a[0]), D(st, a[1])))
        if re.search(r'^<&?(V3|M3) as std::ops::Neg>::neg$', g): return one(st, mscale(fc(-1), D(st, a[0])))
        if re.search(r'^<&?Iso3 as std::ops::Mul(<&?Iso3>)?>::mul$', g): return one(st, iso_mul(D(st, a[0]), D(st, a[1])))
        if re.search(r'^<&?Iso3 as std::ops::Mul<&?(V3|P3)>>::mul$', g):
            A = D(st, a[0]); return one(st, madd(mmul(A.R, D(st, a[1])), A.t) if 'P3' in g else mmul(A.R, D(st, a[1])))
        if re.search(r'^<&?Iso3 as std::ops::Mul<&?Tr3>>::mul$', g):
            A = D(st, a[0]); return one(st, Iso(A.R, madd(A.t, mmul(A.R, D(st, a[1]).items[0]))))
        if re.search(r'^<&?Tr3 as std::ops::Mul<&?Iso3>>::mul$', g):
            B = D(st, a[1]); return one(st, Iso(B.R, madd(B.t, D(st, a[0]).items[0])))
        if re.search(r'^<&?Iso3 as std::ops::Mul<&?(UQ|Rot3)>>::mul$', g):
            A = D(st, a[0]); return one(st, Iso(mmul(A.R, D(st, a[1])), A.t))
        if re.search(r'^<&?(UQ|Rot3) as std::ops::Mul<&?Iso3>>::mul$', g):
            R, B = D(st, a[0]), D(st, a[1]); return one(st, Iso(mmul(R, B.R), mmul(R, B.t)))
        if re.search(r'^<&?Tr3 as std::ops::Mul<&?(UQ|Rot3)>>::mul$', g): return one(st, Iso(D(st, a[1]), D(st, a[0]).items[0]))
        if re.search(r'(^|::)Tr3::inverse$|na::translation::<impl Tr3>::inverse$|na::Translation::<f64, 3>::inverse$', g): return one(st, Agg([mscale(fc(-1), D(st, a[0]).items[0])], 'Tr3'))
        if re.search(r'^<&?Iso3 as std::ops::Mul<&?Tr3>>::mul$', g):
            A = D(st, a[0]); return one(st, Iso(A.R, madd(A.t, mmul(A.R, D(st, a[1]).items[0]))))
        if re.search(r'Iso3::inverse$|na::isometry::<impl Iso3>::inverse$', g): return one(st, iso_inv(D(st, a[0])))
        if re.search(r'Iso3::(append|prepend)_(translation|rotation)(_wrt_center)?(_mut)?$', g):
            A = D(st, a[0]); X_ = D(st, a[1]); mm_ = re.search(r'(append|prepend)_(translation|rotation)(_wrt_center)?(_mut)?$', g)
            if mm_.group(2) == 'translation':
                tv = X_.items[0]
                new = Iso(A.R, madd(A.t, tv)) if mm_.group(1) == 'append' else Iso(A.R, madd(A.t, mmul(A.R, tv)))
            else:
                if mm_.group(3): new = Iso(mmul(X_, A.R), A.t)
                else: new = Iso(mmul(X_, A.R), Mat(3, 1, mmul(X_, A.t).d)) if mm_.group(1) == 'append' else Iso(mmul(A.R, X_), A.t)
            if mm_.group(4):
                e.write_ref(st, a[0], new); return one(st, UNIT)
            return one(st, new)
        if re.search(r'Iso3::inverse_mut$', g):
            e.write_ref(st, a[0], iso_inv(D(st, a[0]))); return one(st, UNIT)
        if re.search(r'Iso3::to_homogeneous$|Iso3::to_matrix$', g): raise Inconclusive('homogeneous matrices are not modelled')
        if re.search(r'Iso3::inv_mul$', g): return one(st, iso_mul(iso_inv(D(st, a[0])), D(st, a[1])))
        if re.search(r'(Rot3|UQ)::inverse$|na::quaternion::<impl UQ>::inverse$|na::rotation::<impl Rot3>::inverse$|::transpose$', g): return one(st, transpose(D(st, a[0])))
        if re.search(r'Rot3::transform_vector$|na::quaternion::<impl UQ>::transform_vector$|<impl UQ>::transform_vector$', g): return one(st, Mat(3, 1, mmul(D(st, a[0]), D(st, a[1])).d))
        if re.search(r'Iso3::transform_point$', g):
            A = D(st, a[0]); return one(st, madd(mmul(A.R, D(st, a[1])), A.t))
        if re.search(r'na::norm::<impl (V3|na::Matrix<.*>)>::norm$', g): return one(st, norm(D(st, a[0])))
        if re.search(r'na::norm::<impl (V3|na::Matrix<.*>)>::norm_squared$', g): return one(st, dot(D(st, a[0]), D(st, a[0])))
        if re.search(r'na::norm::<impl (V3|na::Matrix<.*>)>::normalize$', g):
            v = D(st, a[0]); n = norm(v)
            dh = getattr(eng, 'div_hook', None)
            return one(st, Mat(3, 1, [(F(dh(x.v, n.v), b_or(x.poison(), n.poison(), n.v == 0)) if dh is not None and dh(x.v, n.v) is not None else fop('Div', x, n)) for x in v.d]))
        if re.search(r'::cross$', g): return one(st, cross(D(st, a[0]), D(st, a[1])))
        if re.search(r'::dot$', g): return one(st, dot(D(st, a[0]), D(st, a[1])))
        if re.search(r'<impl UQ>::euler_angles$|Rot3::euler_angles$', g):
            n = len(getattr(e, '_euler', [])); e._euler = getattr(e, '_euler', []) + [D(st, a[0])]
            return one(st, Agg([F(z3.Real(f'euler{n}_{k}')) for k in range(3)]))      # some function of the rotation, NOT its log map: nothing is assumed about it
        # --- indexing ---
        if re.search(r'^<(Rot3|M3|UQ) as std::ops::Index<\(usize, usize\)>>::index$', g):
            ij = a[1]; i, j = ij.items
            return one(st, a[0].sub(i * 3 + j))
        if re.search(r'^<(V3|V6) as std::ops::Index<usize>>::index$', g): return one(st, a[0].sub(a[1]))
        if re.search(r'^<(V3|V6) as std::ops::IndexMut<usize>>::index_mut$', g): return one(st, a[0].sub(a[1]))
        return NotImplemented
    eng.model(r'(^|[ <&:])na::|nalgebra::', h)
    # field projections of coordinate views: (*deref(v)).0 = x etc. work because Mat.items is the component tuple
