"""Produce (and cache by content hash) the MIR dump of /repo's current working tree."""
import hashlib, os, subprocess, sys, time, glob, shutil

REPO = os.environ.get('VERIF_REPO', '/repo')
VERIF = os.path.dirname(os.path.dirname(os.path.abspath(__file__)))
CACHE = os.path.join(VERIF, '.cache')
FEATURES = 'collisions,stroke_planning,allow_filesystem'

def tree_hash(repo=REPO):
    h = hashlib.sha256()
    files = [os.path.join(repo, 'Cargo.toml'), os.path.join(repo, 'Cargo.lock')]
    for root, dirs, fs in os.walk(os.path.join(repo, 'src')):
        dirs.sort()
        for f in sorted(fs):
            files.append(os.path.join(root, f))
    for f in files:
        if os.path.isfile(f):
            h.update(os.path.relpath(f, repo).encode()); h.update(b'\0'); h.update(open(f, 'rb').read()); h.update(b'\0')
    return h.hexdigest()[:20]

def dump(repo=REPO, verbose=True):
    """returns (path of MIR text, seconds spent, cached?)"""
    os.makedirs(CACHE, exist_ok=True)
    hh = tree_hash(repo)
    out = os.path.join(CACHE, f'mir-{hh}.txt')
    if os.path.isfile(out) and os.path.getsize(out) > 100000:
        return out, 0.0, True
    t0 = time.time()
    env = dict(os.environ, CARGO_NET_OFFLINE='true', CARGO_TARGET_DIR=os.path.join(CACHE, 'target-mir'))
    cmd = ['cargo', '+nightly', 'rustc', '--offline', '--lib', '--no-default-features', '--features', FEATURES, '--',
           '-Zunpretty=mir', '-Ztrim-diagnostic-paths=no', '-C', 'opt-level=0', '-C', 'debug-assertions=off', '-C', 'overflow-checks=on',
           '-Awarnings']
    for attempt in range(2):
        r = subprocess.run(cmd, cwd=repo, env=env, capture_output=True, text=True)
        if r.returncode != 0:
            sys.stderr.write(r.stderr[-4000:])
            raise RuntimeError('MIR dump failed (does the tree compile?)')
        if len(r.stdout) > 100000: break
        # cargo considered the crate fresh and did not re-run rustc: drop its fingerprint and retry
        for d in glob.glob(os.path.join(CACHE, 'target-mir', 'debug', '.fingerprint', 'rs-opw-kinematics-*')): shutil.rmtree(d, ignore_errors=True)
    else:
        raise RuntimeError('MIR dump came back empty')
    tmp = out + '.tmp%d' % os.getpid()
    open(tmp, 'w').write(r.stdout); os.replace(tmp, out)
    # keep the cache small: remove dumps of other trees, oldest first, beyond 6
    olds = sorted(glob.glob(os.path.join(CACHE, 'mir-*.txt')), key=os.path.getmtime)
    for f in olds[:-6]:
        try: os.remove(f)
        except OSError: pass
    if verbose: sys.stderr.write(f'[mirdump] {out} in {time.time() - t0:.1f}s\n')
    return out, time.time() - t0, False

_BODIES = {}
def load(repo=REPO):
    from .mirparse import parse_mir
    path, secs, cached = dump(repo)
    if path not in _BODIES: _BODIES[path] = parse_mir(open(path).read())
    return _BODIES[path], dict(mir_path=path, mir_dump_s=round(secs, 2), mir_cached=cached, tree_hash=os.path.basename(path)[4:-4])

if __name__ == '__main__':
    p, s, c = dump(); print(p, round(s, 1), 'cached' if c else 'fresh')
