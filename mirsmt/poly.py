"""Sparse multivariate polynomials over Q with on-the-fly reduction modulo the relations the encoder
itself asserts (c^2 -> 1 - s^2 for trig pairs, sigma^2 -> 1 for sign symbols, and harness-supplied
monomial rewrite rules such as k*sin(psi) -> a2).  Used to bring equality obligations to normal form
before they are sent to the solver: a true identity arrives as `0 != 0`."""
from fractions import Fraction
import z3

class NotPolynomial(Exception): pass

class Ring:
    def __init__(s):
        s.cos2sin = {}       # cos var name -> sin var name
        s.unit = set()       # vars with v^2 = 1
        s.rules = []         # (frozenset of var names that must all be present, replacement Poly) : product of those vars (each exp 1) -> poly
        s.sq = {}            # var name -> Poly  (v^2 = poly)
        s.vars = {}          # name -> z3 const
    def pair(s, sv, cv):
        s.cos2sin[cv.decl().name()] = sv.decl().name(); s.vars[sv.decl().name()] = sv; s.vars[cv.decl().name()] = cv
    def sign(s, v): s.unit.add(v.decl().name()); s.vars[v.decl().name()] = v
    def rule(s, vs, poly): s.rules.append((tuple(v.decl().name() for v in vs), poly))
    def square(s, v, poly): s.sq[v.decl().name()] = poly

    # ----- monomials are tuples of (name, exp) sorted by name -----
    def const(s, q): return Poly(s, {(): Fraction(q)} if q != 0 else {})
    def var(s, v):
        n = v.decl().name(); s.vars[n] = v
        return Poly(s, {((n, 1),): Fraction(1)})
    def reduce_mono(s, mono, coef, out):
        """add coef*mono (reduced) into dict out"""
        work = [(dict(mono), coef)]
        while work:
            m, c = work.pop()
            again = False
            for n, e in list(m.items()):
                if e >= 2 and n in s.unit:
                    m[n] = e % 2
                    if m[n] == 0: del m[n]
                    again = True; break
                if e >= 2 and n in s.cos2sin:
                    # c^2 = 1 - s^2
                    sn = s.cos2sin[n]
                    m1 = dict(m); m1[n] = e - 2
                    if m1[n] == 0: del m1[n]
                    m2 = dict(m1); m2[sn] = m2.get(sn, 0) + 2
                    work.append((m1, c)); work.append((m2, -c)); m = None; break
                if e >= 2 and n in s.sq:
                    m1 = dict(m); m1[n] = e - 2
                    if m1[n] == 0: del m1[n]
                    for mm, cc in s.sq[n].t.items():
                        m2 = dict(m1)
                        for vn, ve in mm: m2[vn] = m2.get(vn, 0) + ve
                        work.append((m2, c * cc))
                    m = None; break
            if m is None: continue
            if again: work.append((m, c)); continue
            fired = False
            for vs, rp in s.rules:
                if all(m.get(v, 0) >= 1 for v in vs):
                    m1 = dict(m)
                    for v in vs:
                        m1[v] -= 1
                        if m1[v] == 0: del m1[v]
                    for mm, cc in rp.t.items():
                        m2 = dict(m1)
                        for vn, ve in mm: m2[vn] = m2.get(vn, 0) + ve
                        work.append((m2, c * cc))
                    fired = True; break
            if fired: continue
            key = tuple(sorted(m.items()))
            v = out.get(key, 0) + c
            if v == 0: out.pop(key, None)
            else: out[key] = v

class Poly:
    __slots__ = ('R', 't')
    def __init__(s, R, t): s.R = R; s.t = t
    def __add__(s, o):
        t = dict(s.t)
        for m, c in o.t.items():
            v = t.get(m, 0) + c
            if v == 0: t.pop(m, None)
            else: t[m] = v
        return Poly(s.R, t)
    def __neg__(s): return Poly(s.R, {m: -c for m, c in s.t.items()})
    def __sub__(s, o): return s + (-o)
    def scale(s, q): return Poly(s.R, {m: c * q for m, c in s.t.items()}) if q != 0 else Poly(s.R, {})
    def __mul__(s, o):
        out = {}
        if len(s.t) * len(o.t) > 4_000_000: raise NotPolynomial('product too large')
        for m1, c1 in s.t.items():
            d1 = dict(m1)
            for m2, c2 in o.t.items():
                m = dict(d1)
                for n, e in m2: m[n] = m.get(n, 0) + e
                s.R.reduce_mono(m.items(), c1 * c2, out)
        return Poly(s.R, out)
    def is_zero(s): return not s.t
    def is_const(s): return all(m == () for m in s.t)
    def nterms(s): return len(s.t)
    def to_z3(s):
        if not s.t: return z3.RealVal(0)
        terms = []
        for m, c in s.t.items():
            f = [z3.RealVal(f'{c.numerator}/{c.denominator}' if c.denominator != 1 else str(c.numerator))] if c != 1 or not m else []
            for n, e in m: f += [s.R.vars[n]] * e
            terms.append(f[0] if len(f) == 1 else z3.Product(f))
        return terms[0] if len(terms) == 1 else z3.Sum(terms)
    def __repr__(s):
        if not s.t: return '0'
        return ' + '.join(f'{c}*' + '*'.join(f'{n}^{e}' if e > 1 else n for n, e in m) if m else str(c) for m, c in list(s.t.items())[:12]) + (' + ...' if len(s.t) > 12 else '')

def from_z3(R, e, cache=None):
    """z3 real term -> Poly (raises NotPolynomial on ite, division by a non-constant, etc.)"""
    cache = {} if cache is None else cache
    k = e.get_id()
    if k in cache: return cache[k]
    if z3.is_rational_value(e): r = R.const(e.as_fraction())
    elif z3.is_int_value(e): r = R.const(e.as_long())
    elif z3.is_const(e) and e.decl().kind() == z3.Z3_OP_UNINTERPRETED: r = R.var(e)
    elif z3.is_add(e):
        r = R.const(0)
        for c in e.children(): r = r + from_z3(R, c, cache)
    elif z3.is_mul(e):
        r = R.const(1)
        for c in e.children(): r = r * from_z3(R, c, cache)
    elif z3.is_sub(e):
        ch = e.children(); r = from_z3(R, ch[0], cache)
        for c in ch[1:]: r = r - from_z3(R, c, cache)
    elif e.decl().kind() == z3.Z3_OP_UMINUS: r = -from_z3(R, e.arg(0), cache)
    elif z3.is_div(e):
        d = from_z3(R, e.arg(1), cache)
        if not d.is_const() or d.is_zero(): raise NotPolynomial('division by non-constant')
        r = from_z3(R, e.arg(0), cache).scale(1 / d.t[()])
    elif e.decl().kind() == z3.Z3_OP_POWER:
        n = e.arg(1)
        if not (z3.is_rational_value(n) and n.as_fraction().denominator == 1 and n.as_fraction() >= 0): raise NotPolynomial('power')
        b = from_z3(R, e.arg(0), cache); r = R.const(1)
        for _ in range(int(n.as_fraction())): r = r * b
    elif e.decl().kind() == z3.Z3_OP_TO_REAL: r = from_z3(R, e.arg(0), cache)
    else: raise NotPolynomial(str(e.decl()))
    cache[k] = r; return r

def ring_for(eng, signs=(), extra_pairs=()):
    """ring with the unit-circle relation of every trig pair the engine created and sigma^2=1 for the given sign symbols"""
    R = Ring()
    for sv, cv in list(eng.trig.pairs.values()) + list(extra_pairs):
        if z3.is_const(sv) and z3.is_const(cv) and sv.decl().kind() == z3.Z3_OP_UNINTERPRETED and cv.decl().kind() == z3.Z3_OP_UNINTERPRETED: R.pair(sv, cv)
    for sg in signs: R.sign(sg)
    return R

def sqrt_monomial(p, positive):
    """if p is a single monomial c * prod x_i^(2 e_i) with c a positive rational square and every x_i in `positive` (names), return the root as Poly"""
    from math import isqrt
    if len(p.t) == 0: return p.R.const(0)
    if len(p.t) != 1: return None
    (m, c), = p.t.items()
    if c <= 0: return None
    n, d = c.numerator, c.denominator
    if isqrt(n) ** 2 != n or isqrt(d) ** 2 != d: return None
    root = []
    for name, e in m:
        if e % 2 or name not in positive: return None
        root.append((name, e // 2))
    return Poly(p.R, {tuple(root): Fraction(isqrt(n), isqrt(d))})

def div_monomial(p, q):
    """p / q when q is a single monomial dividing every term of p, else None"""
    if len(q.t) != 1: return None
    (mq, cq), = q.t.items(); dq = dict(mq); out = {}
    for m, c in p.t.items():
        dm = dict(m)
        for name, e in dq.items():
            if dm.get(name, 0) < e: return None
            dm[name] -= e
            if dm[name] == 0: del dm[name]
        out[tuple(sorted(dm.items()))] = c / cq
    return Poly(p.R, out)

# ------------------------------------------------------------------------------------------------
class RatFunc:
    """num/den over a Ring (den is never the zero polynomial; denominators are assumed non-zero by the harness' class assumptions, which are listed)"""
    __slots__ = ('n', 'd')
    def __init__(s, n, d=None):
        s.n = n; s.d = d if d is not None else n.R.const(1)
    def __add__(s, o): return RatFunc(s.n * o.d + o.n * s.d, s.d * o.d).cancel() if not _same_poly(s.d, o.d) else RatFunc(s.n + o.n, s.d)
    def __sub__(s, o): return s + (-o)
    def __neg__(s): return RatFunc(-s.n, s.d)
    def __mul__(s, o): return RatFunc(s.n * o.n, s.d * o.d).cancel()
    def __truediv__(s, o): return RatFunc(s.n * o.d, s.d * o.n).cancel()
    def is_zero(s): return s.n.is_zero()
    def cancel(s):
        """cheap cancellation: common monomial factors and equal num/den"""
        if s.d.is_const() and not s.d.is_zero():
            c = s.d.t[()]
            return RatFunc(s.n.scale(1 / c)) if c != 1 else s
        if len(s.d.t) == 1:
            q = div_monomial(s.n, s.d)
            if q is not None: return RatFunc(q)
        return s
    def to_z3(s):
        return s.n.to_z3() if (s.d.is_const() and s.d.t.get((), 0) == 1) else s.n.to_z3() / s.d.to_z3()

def _same_poly(a, b): return a.t == b.t

def rat_from_z3(R, e, cache=None):
    """z3 real term with divisions -> RatFunc"""
    cache = {} if cache is None else cache
    k = e.get_id()
    if k in cache: return cache[k]
    if z3.is_div(e): r = rat_from_z3(R, e.arg(0), cache) / rat_from_z3(R, e.arg(1), cache)
    elif z3.is_add(e):
        r = RatFunc(R.const(0))
        for c in e.children(): r = r + rat_from_z3(R, c, cache)
    elif z3.is_mul(e):
        r = RatFunc(R.const(1))
        for c in e.children(): r = r * rat_from_z3(R, c, cache)
    elif z3.is_sub(e):
        ch = e.children(); r = rat_from_z3(R, ch[0], cache)
        for c in ch[1:]: r = r - rat_from_z3(R, c, cache)
    elif z3.is_app(e) and e.decl().kind() == z3.Z3_OP_UMINUS: r = -rat_from_z3(R, e.arg(0), cache)
    else: r = RatFunc(from_z3(R, e))
    cache[k] = r; return r
