"""yaml_rust2::Yaml as a symbolic tree (the text scanner is outside the claim), std::fs as an oracle, and the few str operations parse_degrees uses."""
import re, z3
from .values import *

YDISC = dict(Real=0, Integer=1, String=2, Boolean=3, Array=4, Hash=5, Alias=6, Null=7, BadValue=8)
class NumTok:
    """payload of a numeric scalar whose YAML type (Integer / Real) may be symbolic: the same number seen as text or as i64"""
    def __init__(s, value): s.value = value
    def same(s, o): return isinstance(o, NumTok) and s.value.eq(o.value)
class SymStr:
    """a string known by its shape: kind in {'deg(x)', 'x)', 'x', 'junk'} carrying the number x it spells"""
    def __init__(s, kind, value=None): s.kind = kind; s.value = value
    def same(s, o): return isinstance(o, SymStr) and s.kind == o.kind and ((s.value is None and o.value is None) or (s.value is not None and o.value is not None and s.value.eq(o.value)))

def ynum(value, is_int):
    """numeric scalar; is_int: python bool or z3 Bool"""
    d = (1 if is_int else 0) if not isz(is_int) else z3.If(is_int, 1, 0)
    return Enum(d, [NumTok(value)], 'Yaml')
def ystr(kind, value=None): return Enum(2, [SymStr(kind, value)], 'Yaml')
def yarr(items): return Enum(4, [VecV.dense(items)], 'Yaml')
def yhash(d): return Enum(5, [Opaque('hash', data=dict(d))], 'Yaml')
def ybad(): return Enum(8, [], 'Yaml')

def install(eng, rec):
    from .symex import Inconclusive
    D = eng.deref
    M = lambda pat, h: eng.model(pat, h, front=True)
    one = lambda st, v: [(st, v)]
    rec.setdefault('docs', None)
    eng.enums['Yaml'] = ['Real', 'Integer', 'String', 'Boolean', 'Array', 'Hash', 'Alias', 'Null', 'BadValue']
    M(r'^std::fs::File::open', lambda e, st, fr, f, a, m: one(st, Ok(Opaque('file'))))
    M(r'^<std::fs::File as std::io::Read>::read_to_string$', lambda e, st, fr, f, a, m: one(st, Ok(0)))
    M(r'^std::string::String::new$', lambda e, st, fr, f, a, m: one(st, StrV('')))
    M(r'^std::fs::read_to_string', lambda e, st, fr, f, a, m: one(st, Ok(Opaque('string'))))
    M(r'^yaml_rust2::YamlLoader::load_from_str$', lambda e, st, fr, f, a, m: one(st, Ok(VecV.dense(list(rec['docs'])))))
    M(r'^<yaml_rust2::ScanError as std::string::ToString>::to_string$', lambda e, st, fr, f, a, m: one(st, StrV('scan error')))
    def yindex(e, st, fr, f, a, m):
        y = D(st, a[0]); key = D(st, a[1]); key = key.s if isinstance(key, StrV) else str(key)
        if isinstance(y, Enum) and not isz(y.disc) and y.disc == 5:
            h = y.items[0].data
            if key in h:
                cell = ('yaml', id(h), key); st.frames[0].locals[cell] = h[key]; return one(st, RefV(0, cell, ()))
        cell = ('yaml', 'bad'); st.frames[0].locals[cell] = ybad(); return one(st, RefV(0, cell, ()))
    M(r'^<yaml_rust2::Yaml as std::ops::Index<&str>>::index$', yindex)
    def as_num(which):
        def h(e, st, fr, f, a, m):
            y = D(st, a[0])
            if isinstance(y, Enum) and y.items and isinstance(y.items[0], int) and not isz(y.disc) and y.disc == 1:
                return one(st, Some(y.items[0]) if which == 'i64' else NONE())
            if not isinstance(y, Enum) or not y.items or not isinstance(y.items[0], NumTok): return one(st, NONE())
            want = 0 if which == 'f64' else 1
            d = y.disc
            ok = (d == want) if not isz(d) else z3.simplify(d == want)
            val = F(y.items[0].value) if which == 'f64' else y.items[0].value
            if ok is True or (isz(ok) and z3.is_true(ok)): return one(st, Some(val))
            if ok is False or (isz(ok) and z3.is_false(ok)): return one(st, NONE())
            return one(st, Enum(z3.If(ok, 1, 0), [val], 'Option'))
        return h
    M(r'^yaml_rust2::Yaml::as_f64$', as_num('f64'))
    M(r'^yaml_rust2::Yaml::as_i64$', as_num('i64'))
    def as_vec(e, st, fr, f, a, m):
        y = D(st, a[0])
        if isinstance(y, Enum) and not isz(y.disc) and y.disc == 4: return one(st, Some(a[0].sub(0)))
        return one(st, NONE())
    M(r'^yaml_rust2::Yaml::as_vec$', as_vec)
    M(r'^std::vec::from_elem', lambda e, st, fr, f, a, m: one(st, VecV.dense([a[0]] * int(a[1]))))
    M(r'^yaml_rust2::Yaml::Integer$', lambda e, st, fr, f, a, m: one(st, ynum(z3.RealVal(a[0]) if not isz(a[0]) else a[0], True)))
    # str operations on shaped strings
    def strip_prefix(e, st, fr, f, a, m):
        s_ = D(st, a[0]); pre = D(st, a[1]).s
        if isinstance(s_, SymStr) and pre == 'deg(':
            return one(st, Some(SymStr('x)', s_.value)) if s_.kind == 'deg(x)' else NONE())
        if isinstance(s_, NumTok): return one(st, NONE())      # a string that spells a number does not start with `deg(`
        raise Inconclusive('strip_prefix on an unshaped string')
    M(r'core::str::<impl str>::strip_prefix$', strip_prefix)
    def strip_suffix(e, st, fr, f, a, m):
        s_ = D(st, a[0]); suf = D(st, a[1]).s
        if isinstance(s_, SymStr) and suf == ')': return one(st, Some(SymStr('x', s_.value)) if s_.kind == 'x)' else NONE())
        if isinstance(s_, NumTok): return one(st, NONE())      # ... nor end with `)`
        raise Inconclusive('strip_suffix on an unshaped string')
    M(r'core::str::<impl str>::strip_suffix$', strip_suffix)
    M(r'core::str::<impl str>::trim$', lambda e, st, fr, f, a, m: one(st, D(st, a[0])))
    def parse(e, st, fr, f, a, m):
        s_ = D(st, a[0])
        if isinstance(s_, NumTok): return one(st, Ok(F(s_.value)))
        if isinstance(s_, SymStr): return one(st, Ok(F(s_.value)) if s_.kind == 'x' else Err(Opaque('ParseFloatError')))
        raise Inconclusive('parse of an unshaped string')
    M(r'core::str::<impl str>::parse$', parse)
    M(r'^<&str as std::convert::Into<std::string::String>>::into$', lambda e, st, fr, f, a, m: one(st, D(st, a[0])))
    # Option / Result combinators
    be = eng.branch_enum
    def and_then(e, st, fr, f, a, m):
        o, clo = a; return be(st, o, lambda s: e.call_closure(s, fr, clo, [o.items[0]]), lambda s: one(s, NONE()))
    M(r'^std::option::Option::<.*>::and_then$', and_then)
    def or_else(e, st, fr, f, a, m):
        o, clo = a; return be(st, o, lambda s: one(s, o), lambda s: e.call_closure(s, fr, clo, []))
    M(r'^std::option::Option::<.*>::or_else$', or_else)
    M(r'^std::option::Option::<.*>::or$', lambda e, st, fr, f, a, m: be(st, a[0], lambda s: one(s, a[0]), lambda s: one(s, a[1])))
    def ok_or(e, st, fr, f, a, m):
        o, err = a; return be(st, o, lambda s: one(s, Ok(o.items[0])), lambda s: one(s, Err(err)))
    M(r'^std::option::Option::<.*>::ok_or$', ok_or)
    def ok_or_else(e, st, fr, f, a, m):
        o, clo = a
        def none(s): return [(s2, Err(v)) for s2, v in e.call_closure(s, fr, clo, [])]
        return be(st, o, lambda s: one(s, Ok(o.items[0])), none)
    M(r'^std::option::Option::<.*>::ok_or_else$', ok_or_else)
    def res_map(e, st, fr, f, a, m):
        o, clo = a
        def ok(s): return [(s2, Ok(v)) for s2, v in e.call_closure(s, fr, clo, [o.items[0]])]
        return be(st, o, ok, lambda s: one(s, o), 0)
    M(r'^std::result::Result::<.*>::map$', res_map)
    def res_map_err(e, st, fr, f, a, m):
        o, clo = a
        def err(s): return [(s2, Err(v)) for s2, v in e.call_closure(s, fr, clo, [o.items[0]])]
        return be(st, o, lambda s: one(s, o), err, 0)
    M(r'^std::result::Result::<.*>::map_err$', res_map_err)
    def try_into_arr(e, st, fr, f, a, m):
        v = a[0]; n = int(re.search(r'TryInto<\[\w+; (\d+)\]>', f).group(1))
        if isinstance(v, VecV) and v.is_dense() and len(v.items) == n: return one(st, Ok(Agg(list(v.items))))
        return one(st, Err(v))
    M(r'^<std::vec::Vec<.*> as std::convert::TryInto<\[.*\]>>::try_into$', try_into_arr)
    def collect_result(e, st, fr, f, a, m):
        if 'collect::<std::result::Result<' not in f: return NotImplemented
        it = a[0]; vals = []; cur = [(st, [])]
        for g, x in it.ents:
            nxt = []
            for s0, acc in cur:
                if isz(x.disc): raise Inconclusive('symbolic Result inside collect')
                if x.disc == 1: return one(s0, Err(x.items[0]))
                nxt.append((s0, acc + [x.items[0]]))
            cur = nxt
        return [(s0, Ok(VecV.dense(acc))) for s0, acc in cur]
    M(r'^<.* as std::iter::Iterator>::collect$', collect_result)
