"""Nondeterministic oracles: environment calls return fresh symbols constrained by their documented contract only."""
import z3
from .values import *

def install_rng(eng):
    """rand::thread_rng().gen_range(lo..hi): any u with lo <= u < hi; panics (obligation) when the range is empty"""
    eng.rng_draws = []
    eng.model(r'^rand::thread_rng$|^rand::rngs::thread::thread_rng$|^rand::rng$', lambda e, st, fr, f, a, m: [(st, Opaque('rng'))])
    def gen_range(e, st, fr, f, a, m):
        rg = a[1]
        lo, hi = rg.items[0], rg.items[1]
        if not isinstance(lo, F): return NotImplemented
        incl = rg.tag == 'RangeInclusive'
        ok = e.binop('Le' if incl else 'Lt', lo, hi)
        if ok is not True:
            e.add_obligation('panic', z3.And(st.pcz(), z3.Not(zb(ok))), 'gen_range: cannot sample empty range', st.frames[fr].body.name)
            st.assume(ok)
        u = fresh('rng')
        st.assume(z3.And(u >= lo.v, (u <= hi.v) if incl else (u < hi.v)))
        e.rng_draws.append((u, lo, hi))
        return [(st, F(u))]
    eng.model(r'as rand::Rng>::(gen_range|random_range)$', gen_range)
