"""Nondeterministic oracles: environment calls return fresh symbols constrained by their documented contract only."""
import z3
from .values import *

def install_rng(eng):
    """rand::thread_rng().gen_range(lo..hi): any u with lo <= u < hi; panics (obligation) when the range is empty"""
    eng.rng_draws = []
    eng.model(r'^rand::thread_rng$|^rand::rngs::thread::thread_rng$|^rand::rng$', lambda e, st, fr, f, a, m: [(st, Opaque('rng'))])
    def gen_range(e, st, fr, f, a, m):
        rg = a[1]
        lo, hi = rg.items[0], rg.items[1]
        if not isinstance(lo, F): return NotImplemented
        incl = rg.tag == 'RangeInclusive'
        ok = e.binop('Le' if incl else 'Lt', lo, hi)
        if ok is not True:
            e.add_obligation('panic', z3.And(st.pcz(), z3.Not(zb(ok))), 'gen_range: cannot sample empty range', st.frames[fr].body.name)
            st.assume(ok)
        u = fresh('rng')
        st.assume(z3.And(u >= lo.v, (u <= hi.v) if incl else (u < hi.v)))
        e.rng_draws.append((u, lo, hi))
        return [(st, F(u))]
    eng.model(r'as rand::Rng>::(gen_range|random_range)$', gen_range)

# ------------------------------------------------------------------------------------------------
class DynKin(Opaque):
    """an arbitrary implementation of the Kinematics trait: every method returns fresh symbols, every call is logged"""
    def __init__(s, name, nsol=2, cons_ref=None):
        super().__init__('dynkin', name); s.nsol = nsol; s.cons_ref = cons_ref

def fresh_iso(eng, tag):
    from .models_na import Mat, Iso
    n = next(_ctr)
    R = Mat(3, 3, [F(z3.Real(f'{tag}{n}_r{i}{k}')) for i in range(3) for k in range(3)], 'rot')
    t = Mat(3, 1, [F(z3.Real(f'{tag}{n}_t{i}')) for i in range(3)])
    return Iso(R, t)
import itertools
_ctr = itertools.count()

def install_dynkin(eng):
    """dispatch of <dyn Kinematics as Kinematics>::method: oracle objects answer nondeterministically, crate structs by their impl"""
    from .symex import Inconclusive
    eng.kin_calls = []
    def h(e, st, fr, f, a, m):
        meth = m.group(1)
        obj = e.deref(st, a[0])
        if isinstance(obj, DynKin):
            n = next(_ctr)
            args = [e.deref(st, x) if isinstance(x, RefV) else x for x in a[1:]]
            if meth == 'forward': res = fresh_iso(e, f'{obj.name}_fwd')
            elif meth == 'forward_with_joint_poses': res = Agg([fresh_iso(e, f'{obj.name}_link{i}_') for i in range(6)])
            elif meth in ('inverse', 'inverse_continuing', 'inverse_5dof', 'inverse_continuing_5dof'):
                res = VecV.dense([Agg([F(z3.Real(f'{obj.name}_{meth}{n}_s{k}_j{i}')) for i in range(6)]) for k in range(obj.nsol)])
            elif meth == 'kinematic_singularity':
                b = z3.Bool(f'{obj.name}_sing{n}'); res = Enum(z3.If(b, 1, 0), [Enum(0, [], 'Singularity')], 'Option')
            elif meth == 'constraints':
                if obj.cons_ref is None: raise Inconclusive('oracle robot without a constraints cell')
                res = obj.cons_ref
            else: raise Inconclusive('Kinematics method ' + meth)
            rec = dict(obj=obj.name, method=meth, args=args, result=res, seq=n)
            e.kin_calls.append(rec); e.log(st, rec)
            return [(st, res)]
        tag = getattr(obj, 'tag', None)
        if tag:
            ty = tag.split('::')[-1]
            for k, v in e.alias.items():
                if isinstance(k, tuple) and k[1] == 'Kinematics' and k[2] == meth and k[0].split('::')[-1] == ty:
                    e.inlined_fns[v] = e.inlined_fns.get(v, 0) + 1
                    return e.call_body(st, e.bodies[v], a)
        raise Inconclusive(f'dyn Kinematics::{meth} on {type(obj).__name__} {tag}')
    eng.model(r'^<dyn (?:\w+::)*Kinematics as (?:\w+::)*Kinematics>::(\w+)$', h, front=True)

def euler_iso(eng, tag):
    """an arbitrary rigid motion: Rz(alpha) Ry(beta) Rz(gamma) (onto SO(3)) and a free translation; returns (Iso, pairs, tvars)"""
    from .models_na import Mat, Iso
    prs = []
    for nm in ('a', 'b', 'g'):
        s_, c_ = z3.Real(f'{tag}_s{nm}'), z3.Real(f'{tag}_c{nm}'); eng.side.append(s_ * s_ + c_ * c_ == 1); prs.append((s_, c_))
    (sa, ca), (sb, cb), (sg, cg) = prs
    def Rz(s, c): return [[c, -s, 0], [s, c, 0], [0, 0, 1]]
    def Ry(s, c): return [[c, 0, s], [0, 1, 0], [-s, 0, c]]
    def mm(A, B): return [[sum(A[i][k] * B[k][j] for k in range(3)) for j in range(3)] for i in range(3)]
    Rm = mm(mm(Rz(sa, ca), Ry(sb, cb)), Rz(sg, cg))
    tv = [z3.Real(f'{tag}_t{i}') for i in range(3)]
    iso = Iso(Mat(3, 3, [F(z3.simplify(Rm[i][k])) for i in range(3) for k in range(3)], 'rot'), Mat(3, 1, [F(v) for v in tv]))
    return iso, prs, tv

# ------------------------------------------------------------------------------------------------
class SetV(Opaque):
    """HashSet of concrete integers"""
    def __init__(s, items): super().__init__('set', None, frozenset(items))
    def same(s, o): return isinstance(o, SetV) and s.data == o.data
class MapOracle(Opaque):
    """an arbitrary HashMap<(u16,u16), f32>: for every concrete key a symbolic presence flag and value (consistent per key)"""
    def __init__(s, name): super().__init__('map', name, {})
    def entry(s, k):
        if k not in s.data: s.data[k] = (z3.Bool(f'{s.name}_has_{k[0]}_{k[1]}'), z3.Real(f'{s.name}_val_{k[0]}_{k[1]}'))
        return s.data[k]

def install_collections(eng, rec=None):
    """HashSet / HashMap / rayon / parry3d oracles for the collision code"""
    from .symex import Inconclusive
    from .models_std import _deq
    rec = rec if rec is not None else {}
    rec.setdefault('parry', []); eng.col_rec = rec
    D = eng.deref
    M = lambda pat, h: eng.model(pat, h, front=True)
    one = lambda st, v: [(st, v)]
    def conc(x):
        if isz(x):
            x = z3.simplify(x)
            if z3.is_int_value(x): return x.as_long()
            raise Inconclusive('symbolic key')
        return int(x)
    M(r'^std::collections::HashSet::<.*>::(with_capacity|new)$', lambda e, st, fr, f, a, m: one(st, SetV([])))
    M(r'^std::collections::HashSet::<.*>::contains', lambda e, st, fr, f, a, m: one(st, conc(D(st, a[1])) in D(st, a[0]).data))
    M(r'^std::collections::HashSet::<.*>::len$', lambda e, st, fr, f, a, m: one(st, len(D(st, a[0]).data)))
    M(r'^std::collections::HashSet::<.*>::insert$', lambda e, st, fr, f, a, m: (e.write_ref(st, a[0], SetV(D(st, a[0]).data | {conc(a[1])})), one(st, True))[1])
    def range_collect(e, st, fr, f, a, m):
        if 'HashSet' not in f: return NotImplemented
        r = a[0]; return one(st, SetV(range(conc(r.items[0]), conc(r.items[1]))))
    M(r'^<std::ops::Range<usize> as std::iter::Iterator>::collect$', range_collect)
    def map_get(e, st, fr, f, a, m):
        mp = D(st, a[0]); key = D(st, a[1])
        if not isinstance(mp, MapOracle): return NotImplemented
        k = (conc(key.items[0]), conc(key.items[1]))
        has, val = mp.entry(k)
        cell = ('mapval', mp.name, k)
        st.frames[0].locals[cell] = F(val)
        return one(st, Enum(z3.If(has, 1, 0), [RefV(0, cell, ())], 'Option'))
    M(r'^std::collections::HashMap::<.*>::get', map_get)
    M(r'^std::collections::HashMap::<.*>::(new|with_capacity)$', lambda e, st, fr, f, a, m: one(st, Opaque('emptymap')))
    M(r'^<&f32 as std::cmp::PartialOrd>::(gt|lt|ge|le)$', lambda e, st, fr, f, a, m: one(st, e.binop({'gt': 'Gt', 'lt': 'Lt', 'ge': 'Ge', 'le': 'Le'}[m.group(1)], D(st, a[0]), D(st, a[1]))))
    def enum_eq(e, st, fr, f, a, m):
        x, y = D(st, a[0]), D(st, a[1])
        return one(st, _deq(x.disc, y.disc) if not isz(x.disc) and not isz(y.disc) else (zi(x.disc) == zi(y.disc)))
    M(r'^<collisions::CheckMode as std::cmp::PartialEq>::eq$', enum_eq)
    M(r'^<collisions::CheckMode as std::clone::Clone>::clone$', lambda e, st, fr, f, a, m: one(st, D(st, a[0])))
    M(r'^<u16 as std::cmp::Ord>::min$', lambda e, st, fr, f, a, m: one(st, min(a[0], a[1]) if not isz(a[0]) and not isz(a[1]) else z3.If(zi(a[0]) <= zi(a[1]), zi(a[0]), zi(a[1]))))
    M(r'^<u16 as std::cmp::Ord>::max$', lambda e, st, fr, f, a, m: one(st, max(a[0], a[1]) if not isz(a[0]) and not isz(a[1]) else z3.If(zi(a[0]) >= zi(a[1]), zi(a[0]), zi(a[1]))))
    # rayon: par_iter is iteration in an unspecified order; find_map_any returns ANY hit (nondeterministic choice)
    def par_iter(e, st, fr, f, a, m):
        r = a[0]; v = D(st, r)
        ents = v.ents if isinstance(v, VecV) else [(True, x) for x in v.items]
        return one(st, IterV([(g, r.sub(i)) for i, (g, _) in enumerate(ents)], 'ref'))
    M(r'as rayon::iter::IntoParallelRefIterator<.*>>::par_iter$', par_iter)
    def find_map_any(e, st, fr, f, a, m):
        it, clo = a; hits = []
        for g, x in it.ents:
            st, o = e.call1(st, fr, clo, [x]); hits.append((b_and(g, _deq(o.disc, 1)), o.items[0] if o.items else None))
        rec.setdefault('find_map_any', []).append(hits)
        if not hits: return one(st, NONE())
        anyhit = b_or(*[g for g, _ in hits])
        # choice: selector i means "returns hit i" and requires hit i to be real
        n = len(hits); sel = fresh('choice', 'int')
        st.assume(z3.And(sel >= 0, sel < n, z3.Implies(zb(anyhit), z3.Or([z3.And(sel == i, zb(hits[i][0])) for i in range(n)]))))
        val = hits[0][1]
        for i in range(1, n):
            if hits[i][1] is not None: val = ite_data(sel == i, hits[i][1], val) if val is not None else hits[i][1]
        return one(st, Enum(z3.If(zb(anyhit), 1, 0) if isz(anyhit) else (1 if anyhit else 0), [val], 'Option'))
    M(r'as rayon::iter::ParallelIterator>::find_map_any$', find_map_any)
    def par_filter_map(e, st, fr, f, a, m):
        it, clo = a; out = []
        for g, x in it.ents:
            res = e.call_closure(st, fr, clo, [x])
            if len(res) != 1: raise Inconclusive('closure of a parallel filter_map forks')
            st, o = res[0]; out.append((b_and(g, _deq(o.disc, 1)), o.items[0] if o.items else None))
        return one(st, IterV(out, 'val'))
    M(r'as rayon::iter::ParallelIterator>::filter_map$', par_filter_map)
    M(r'as rayon::iter::ParallelIterator>::collect$', lambda e, st, fr, f, a, m: one(st, VecV(a[0].ents)))
    M(r'^<std::option::Option<.*> as std::iter::IntoIterator>::into_iter$', lambda e, st, fr, f, a, m: one(st, IterV(([(True, a[0].items[0])] if a[0].disc == 1 else []) if not isz(a[0].disc) else [(_deq(a[0].disc, 1), a[0].items[0] if a[0].items else None)], 'val')))
    M(r'^<std::option::IntoIter<.*> as std::iter::Iterator>::collect$', lambda e, st, fr, f, a, m: one(st, VecV(a[0].ents)))
    M(r'^<std::ops::Range<usize> as std::iter::Iterator>::rev$', lambda e, st, fr, f, a, m: one(st, IterV([(True, i) for i in reversed(range(conc(a[0].items[0]), conc(a[0].items[1])))], 'val')))
    def array_map(e, st, fr, f, a, m):
        arr, clo = a; out = []
        for x in arr.items:
            st, v = e.call1(st, fr, clo, [x]); out.append(v)
        return one(st, Agg(out))
    M(r'^std::array::<impl \[.*\]>::map$|^std::array::map$', array_map)
    M(r'isometry_construction::<impl .*>::cast$|Isometry::<.*>::cast$', lambda e, st, fr, f, a, m: one(st, a[0]))
    # parry3d
    def isect(e, st, fr, f, a, m):
        args = tuple(D(st, x) for x in a)
        key = ('isect',) + tuple(id(x) if not isinstance(x, Opaque) else (x.kind, x.name, str(x.data)) for x in args)
        b = z3.Bool('intersects!' + str(len(rec['parry']))); rec['parry'].append(dict(q='intersection_test', args=args, res=b))
        return one(st, Ok(b))
    M(r'^parry3d::query::intersection_test$', isect)
    def dist(e, st, fr, f, a, m):
        args = tuple(D(st, x) for x in a); d = fresh('distance'); e.side.append(d >= 0); e.side_lin.append(d >= 0)
        rec['parry'].append(dict(q='distance', args=args, res=d)); return one(st, Ok(F(d)))
    M(r'^parry3d::query::distance$', dist)
    M(r'^parry3d::shape::TriMesh::vertices$', lambda e, st, fr, f, a, m: one(st, Opaque('verts', D(st, a[0]).name)))
    M(r'^parry3d::shape::TriMesh::local_aabb$', lambda e, st, fr, f, a, m: one(st, Opaque('aabb', D(st, a[0]).name, data=('of', D(st, a[0])))))
    M(r'BoundingVolume>::loosened$', lambda e, st, fr, f, a, m: one(st, Opaque('aabb', D(st, a[0]).name, data=('loosened', a[1], D(st, a[0])))))
    def vlen_opaque(e, st, fr, f, a, m):
        v = D(st, a[0])
        if isinstance(v, Opaque) and v.kind == 'verts': return one(st, z3.Int(f'nverts_{v.name}'))
        return NotImplemented
    M(r'^std::vec::Vec::<.*>::len$|core::slice::<impl \[.*\]>::len$', vlen_opaque)

# ------------------------------------------------------------------------------------------------
def install_rrt(eng, rec, limits=None, dim=2):
    """generic-N arithmetic, kd-tree (nearest = ANY existing index), is_free / random_sample / stop-flag oracles, tracing disabled"""
    from .symex import Inconclusive, fop, fcmp
    from .models_std import _deq
    D = eng.deref
    M = lambda pat, h: eng.model(pat, h, front=True)
    one = lambda st, v: [(st, v)]
    rec.update(is_free=[], samples=[], stop=[], nearest=[])
    for tr, op in (('Add', 'Add'), ('Sub', 'Sub'), ('Mul', 'Mul'), ('Div', 'Div')):
        M(r'^<N as std::ops::%s>::%s$' % (tr, tr.lower()), (lambda op: lambda e, st, fr, f, a, m: one(st, e.binop(op, D(st, a[0]), D(st, a[1]))))(op))
    M(r'^<N as num_traits::Float>::sqrt$', lambda e, st, fr, f, a, m: one(st, F(e.trig.sqrt(a[0].v), b_or(a[0].poison(), a[0].v < 0))))
    M(r'^<N as num_traits::Zero>::zero$', lambda e, st, fr, f, a, m: one(st, fconst(0)))
    M(r'^<N as std::cmp::PartialOrd>::(gt|lt|ge|le)$', lambda e, st, fr, f, a, m: one(st, e.binop({'gt': 'Gt', 'lt': 'Lt', 'ge': 'Ge', 'le': 'Le'}[m.group(1)], D(st, a[0]), D(st, a[1]))))
    M(r'^<tracing::Level as std::cmp::PartialOrd<tracing::level_filters::LevelFilter>>::le$', lambda e, st, fr, f, a, m: one(st, False))
    M(r'^kdtree::KdTree::<.*>::new$', lambda e, st, fr, f, a, m: one(st, Opaque('kdtree')))
    M(r'^kdtree::KdTree::<.*>::add$', lambda e, st, fr, f, a, m: one(st, Ok(UNIT)))
    def items_of(st, x):
        v = D(st, x)
        return list(v.items)
    def sq_euclid(e, st, fr, f, a, m):
        x, y = items_of(st, a[0]), items_of(st, a[1]); acc = fconst(0)
        for p, q in zip(x, y):
            d = fop('Sub', p, q); acc = fop('Add', acc, fop('Mul', d, d))
        return one(st, acc)
    M(r'^kdtree::distance::squared_euclidean$', sq_euclid)
    def nearest(e, st, fr, f, a, m):
        # the tree the kd-tree belongs to: the kdtree is field 0 of the Tree whose field 1 holds the vertices
        tree_ref = RefV(a[0].frame, a[0].local, a[0].path[:-1]) if isinstance(a[0], RefV) and a[0].path else None
        n = len(D(st, tree_ref).items[1].items) if tree_ref is not None else rec.get('n_nodes', 1)
        outs = []; seq = st.aux.get('nearest_calls', 0)
        for i in range(n):
            # one cell per call (same key in every forked state, different concrete value): such states are never merged, indices stay concrete
            s2 = st.clone(); cell = ('nearest', seq); s2.frames[0].locals[cell] = i; s2.aux['nearest_calls'] = seq + 1
            rec['nearest'].append(i)
            outs.append((s2, Ok(VecV.dense([Agg([fconst(0), RefV(0, cell, ())])]))))
        return outs
    M(r'^kdtree::KdTree::<.*>::nearest', nearest)
    def to_vec(e, st, fr, f, a, m):
        v = D(st, a[0]); return one(st, VecV.dense(list(v.items)))
    M(r'^std::slice::<impl \[.*\]>::to_vec$|core::slice::<impl \[.*\]>::to_vec$', to_vec)
    def vec_append(e, st, fr, f, a, m):
        x, y = D(st, a[0]), D(st, a[1]); e.write_ref(st, a[0], VecV(list(x.ents) + list(y.ents))); e.write_ref(st, a[1], VecV([])); return one(st, UNIT)
    M(r'^std::vec::Vec::<.*>::append$', vec_append)
    M(r'^<&str as std::cmp::PartialEq>::eq$|^<str as std::cmp::PartialEq>::eq$', lambda e, st, fr, f, a, m: one(st, D(st, a[0]).s == D(st, a[1]).s))
    M(r'^<str as std::string::ToString>::to_string$', lambda e, st, fr, f, a, m: one(st, D(st, a[0])))
    def is_free(e, st, fr, f, a, m):
        q = D(st, a[1].items[0]) if isinstance(a[1], Agg) else D(st, a[1])
        b = z3.Bool(f'free{len(rec["is_free"])}'); rec['is_free'].append((q, b)); return one(st, b)
    M(r'^<FF as std::ops::FnMut<\(&\[N\],\)>>::call_mut$', is_free)
    def sample(e, st, fr, f, a, m):
        k = len(rec['samples']); vs = [z3.Real(f'sample{k}_{i}') for i in range(dim)]
        if limits is not None:
            for v, (lo, hi) in zip(vs, limits): st.assume(z3.And(v >= lo, v <= hi))
        q = VecV.dense([F(v) for v in vs]); rec['samples'].append(q); return one(st, q)
    M(r'^<FR as std::ops::Fn<\(\)>>::call$', sample)
    def load(e, st, fr, f, a, m):
        b = z3.Bool(f'stop{len(rec["stop"])}'); rec['stop'].append(b); return one(st, b)
    M(r'^std::sync::atomic::Atomic(Bool)?::<.*>::load$|^std::sync::atomic::AtomicBool::load$|^std::sync::atomic::Atomic::<bool>::load$', load)
