"""Nondeterministic oracles: environment calls return fresh symbols constrained by their documented contract only."""
import z3
from .values import *

def install_rng(eng):
    """rand::thread_rng().gen_range(lo..hi): any u with lo <= u < hi; panics (obligation) when the range is empty"""
    eng.rng_draws = []
    eng.model(r'^rand::thread_rng$|^rand::rngs::thread::thread_rng$|^rand::rng$', lambda e, st, fr, f, a, m: [(st, Opaque('rng'))])
    def gen_range(e, st, fr, f, a, m):
        rg = a[1]
        lo, hi = rg.items[0], rg.items[1]
        if not isinstance(lo, F): return NotImplemented
        incl = rg.tag == 'RangeInclusive'
        ok = e.binop('Le' if incl else 'Lt', lo, hi)
        if ok is not True:
            e.add_obligation('panic', z3.And(st.pcz(), z3.Not(zb(ok))), 'gen_range: cannot sample empty range', st.frames[fr].body.name)
            st.assume(ok)
        u = fresh('rng')
        st.assume(z3.And(u >= lo.v, (u <= hi.v) if incl else (u < hi.v)))
        e.rng_draws.append((u, lo, hi))
        return [(st, F(u))]
    eng.model(r'as rand::Rng>::(gen_range|random_range)$', gen_range)

# ------------------------------------------------------------------------------------------------
class DynKin(Opaque):
    """an arbitrary implementation of the Kinematics trait: every method returns fresh symbols, every call is logged"""
    def __init__(s, name, nsol=2, cons_ref=None):
        super().__init__('dynkin', name); s.nsol = nsol; s.cons_ref = cons_ref

def fresh_iso(eng, tag):
    from .models_na import Mat, Iso
    n = next(_ctr)
    R = Mat(3, 3, [F(z3.Real(f'{tag}{n}_r{i}{k}')) for i in range(3) for k in range(3)], 'rot')
    t = Mat(3, 1, [F(z3.Real(f'{tag}{n}_t{i}')) for i in range(3)])
    return Iso(R, t)
import itertools
_ctr = itertools.count()

def install_dynkin(eng):
    """dispatch of <dyn Kinematics as Kinematics>::method: oracle objects answer nondeterministically, crate structs by their impl"""
    from .symex import Inconclusive
    eng.kin_calls = []
    def h(e, st, fr, f, a, m):
        meth = m.group(1)
        obj = e.deref(st, a[0])
        if isinstance(obj, DynKin):
            n = next(_ctr)
            args = [e.deref(st, x) if isinstance(x, RefV) else x for x in a[1:]]
            if meth == 'forward': res = fresh_iso(e, f'{obj.name}_fwd')
            elif meth == 'forward_with_joint_poses': res = Agg([fresh_iso(e, f'{obj.name}_link{i}_') for i in range(6)])
            elif meth in ('inverse', 'inverse_continuing', 'inverse_5dof', 'inverse_continuing_5dof'):
                res = VecV.dense([Agg([F(z3.Real(f'{obj.name}_{meth}{n}_s{k}_j{i}')) for i in range(6)]) for k in range(obj.nsol)])
            elif meth == 'kinematic_singularity':
                b = z3.Bool(f'{obj.name}_sing{n}'); res = Enum(z3.If(b, 1, 0), [Enum(0, [], 'Singularity')], 'Option')
            elif meth == 'constraints':
                if obj.cons_ref is None: raise Inconclusive('oracle robot without a constraints cell')
                res = obj.cons_ref
            else: raise Inconclusive('Kinematics method ' + meth)
            rec = dict(obj=obj.name, method=meth, args=args, result=res, seq=n)
            e.kin_calls.append(rec); e.log(st, rec)
            return [(st, res)]
        tag = getattr(obj, 'tag', None)
        if tag:
            ty = tag.split('::')[-1]
            for k, v in e.alias.items():
                if isinstance(k, tuple) and k[1] == 'Kinematics' and k[2] == meth and k[0].split('::')[-1] == ty:
                    e.inlined_fns[v] = e.inlined_fns.get(v, 0) + 1
                    return e.call_body(st, e.bodies[v], a)
        raise Inconclusive(f'dyn Kinematics::{meth} on {type(obj).__name__} {tag}')
    eng.model(r'^<dyn (?:\w+::)*Kinematics as (?:\w+::)*Kinematics>::(\w+)$', h, front=True)

def euler_iso(eng, tag):
    """an arbitrary rigid motion: Rz(alpha) Ry(beta) Rz(gamma) (onto SO(3)) and a free translation; returns (Iso, pairs, tvars)"""
    from .models_na import Mat, Iso
    prs = []
    for nm in ('a', 'b', 'g'):
        s_, c_ = z3.Real(f'{tag}_s{nm}'), z3.Real(f'{tag}_c{nm}'); eng.side.append(s_ * s_ + c_ * c_ == 1); prs.append((s_, c_))
    (sa, ca), (sb, cb), (sg, cg) = prs
    def Rz(s, c): return [[c, -s, 0], [s, c, 0], [0, 0, 1]]
    def Ry(s, c): return [[c, 0, s], [0, 1, 0], [-s, 0, c]]
    def mm(A, B): return [[sum(A[i][k] * B[k][j] for k in range(3)) for j in range(3)] for i in range(3)]
    Rm = mm(mm(Rz(sa, ca), Ry(sb, cb)), Rz(sg, cg))
    tv = [z3.Real(f'{tag}_t{i}') for i in range(3)]
    iso = Iso(Mat(3, 3, [F(z3.simplify(Rm[i][k])) for i in range(3) for k in range(3)], 'rot'), Mat(3, 1, [F(v) for v in tv]))
    return iso, prs, tv
