"""Algebraic trigonometry: one (s,c) pair with s^2+c^2=1 per angle atom, sums by the addition formulas."""
import z3
from fractions import Fraction
from .values import *

class Trig:
    def __init__(s, eng):
        s.eng = eng; s.pairs = {}; s.pair_terms = {}; s.roots = {}; s.atoms = []
        s.atan2s = []; s.acoss = []; s.expand = True
        s.algebraic = None     # set by a harness: object with sqrt(x)->term|None used to resolve roots exactly (atan2/acos pairs become rational terms)
    def key(s, t): return z3.simplify(t, som=True).sexpr()
    def pair(s, t):
        k = s.key(t)
        if k not in s.pairs:
            sv, cv = fresh('sin'), fresh('cos')
            s.eng.side.append(sv * sv + cv * cv == 1); s.pairs[k] = (sv, cv); s.pair_terms[k] = t
        return s.pairs[k]
    def set_pair(s, t, sv, cv):
        """declare the (sin, cos) of atom t to be the given terms (harness parametrisation)"""
        s.pairs[s.key(t)] = (sv, cv); s.pair_terms[s.key(t)] = t
    def leaves(s, t):
        t = z3.simplify(t, som=True)
        terms = t.children() if z3.is_add(t) else [t]
        out = []
        for u in terms:
            co = Fraction(1)
            if z3.is_mul(u) and z3.is_rational_value(u.arg(0)):
                q = u.arg(0).as_fraction()
                rest = u.children()[1:]
                body = rest[0] if len(rest) == 1 else z3.Product(rest)
                co, u = q, body
            if z3.is_rational_value(u):
                if u.as_fraction() == 0: continue
            out.append((co, u))
        return out
    def group(s, t):
        """leaves of t with every registered coarse atom that occurs as a sub-sum collapsed into one leaf"""
        lv = s.leaves(t)
        keyed = {}
        for co, u in lv:
            k = u.sexpr(); keyed[k] = (keyed[k][0] + co, u) if k in keyed else (co, u)
        out = []
        for atom in s.atoms:
            al = [(co, u.sexpr()) for co, u in s.leaves(atom)]
            if not al: continue
            for sign in (1, -1):
                if all(k in keyed and keyed[k][0] == sign * co for co, k in al):
                    for _, k in al: del keyed[k]
                    out.append((Fraction(sign), atom)); break
        return out + [v for v in keyed.values() if v[0] != 0]
    def sincos(s, t):
        """(sin t, cos t) as polynomial terms over atom pairs"""
        if not s.expand: return s.pair(t)
        acc = None
        for co, u in s.group(t):
            if u.eq(PI):
                q = co % 2          # multiples of 2*pi vanish
                tab = {Fraction(0): (0, 1), Fraction(1, 2): (1, 0), Fraction(1): (0, -1), Fraction(3, 2): (-1, 0)}
                if q in tab: sv, cv = [z3.RealVal(x) for x in tab[q]]
                else: sv, cv = s.pair(RV(co) * u)
            elif co == 1: sv, cv = s.pair(u)
            elif co == -1:
                sv, cv = s.pair(u); sv = -sv
            elif co == 2 or co == -2:
                s1, c1 = s.pair(u); sv, cv = 2 * s1 * c1, c1 * c1 - s1 * s1
                if co < 0: sv = -sv
            else:
                sv, cv = s.pair(RV(co) * u)
            if acc is None: acc = (sv, cv)
            else: acc = (acc[0] * cv + acc[1] * sv, acc[1] * cv - acc[0] * sv)
        if acc is None: return (z3.RealVal(0), z3.RealVal(1))
        if s.algebraic is not None and hasattr(s.algebraic, 'simplify_pair'):
            return s.algebraic.simplify_pair(t, acc[0], acc[1])
        return (z3.simplify(acc[0]), z3.simplify(acc[1]))
    def sqrt(s, x):
        if s.algebraic is not None:
            r = s.algebraic.sqrt(x)
            if r is not None: return r
        k = s.key(x)
        if k not in s.roots:
            r = fresh('sqrt'); s.eng.side += [r >= 0, z3.Implies(x >= 0, r * r == x)]; s.eng.side_lin.append(r >= 0); s.roots[k] = r
        return s.roots[k]
    def atan2(s, y, x):
        """theta = atan2(y, x) for real y, x"""
        k = 'atan2|' + s.key(y) + '|' + s.key(x)
        if k in s.roots: return s.roots[k]
        r = s.sqrt(x * x + y * y)
        th = fresh('atan2')
        if s.algebraic is not None:
            # exact mode: (sin, cos) = (y, x)/r as rational terms (r != 0 is a listed class assumption); no fresh pair, no constraints
            s.set_pair(th, y / r, x / r); s.roots[k] = th; s.atan2s.append((th, y, x)); s.eng.side_lin += [th > -PI, th <= PI]; s.eng.side += [th > -PI, th <= PI]
            return th
        sv, cv = s.pair(th)
        s.eng.side_lin += [th > -PI, th <= PI]
        s.eng.side += [r * sv == y, r * cv == x, th > -PI, th <= PI,
                       z3.Implies(z3.And(x == 0, y == 0), z3.And(th == 0, sv == 0, cv == 1)),
                       # quadrant links between the numeric value and the pair
                       (sv > 0) == z3.And(th > 0, th < PI), (sv < 0) == (th < 0),
                       (cv > 0) == z3.And(th > -PI / 2, th < PI / 2), (cv < 0) == z3.Or(th > PI / 2, th < -PI / 2),
                       z3.Implies(z3.And(sv == 0, cv < 0), th == PI)]
        s.roots[k] = th; s.atan2s.append((th, y, x))
        return th
    def acos(s, v):
        k = 'acos|' + s.key(v)
        if k in s.roots: return s.roots[k]
        th = fresh('acos')
        if s.algebraic is not None:
            s.set_pair(th, s.sqrt(1 - v * v), v); s.roots[k] = th; s.acoss.append((th, v)); s.eng.side_lin += [th >= 0, th <= PI]; s.eng.side += [th >= 0, th <= PI]
            return th
        sv, cv = s.pair(th)
        # the value of th is irrelevant when v is out of range (the result is NaN-flagged), so its range may be stated unconditionally
        s.eng.side_lin += [th >= 0, th <= PI]; s.eng.side += [th >= 0, th <= PI]
        s.eng.side.append(z3.Implies(z3.And(v >= -1, v <= 1), z3.And(cv == v, sv >= 0, th >= 0, th <= PI,
                          (cv > 0) == (th < PI / 2), (cv < 0) == (th > PI / 2), (sv == 0) == z3.Or(th == 0, th == PI))))
        s.roots[k] = th; s.acoss.append((th, v))
        return th
