"""More std models (lowest priority: consulted after models_std / models_na and after the per-check oracles). They exist so that a CHANGED tree that starts using
another ordinary std method is still executed instead of ending in exit 2; each follows the documented semantics over the engine's value domain."""
import re
import z3
from .values import *

def install(eng):
    from .symex import Inconclusive, fop
    D = eng.deref
    M = lambda pat, h: eng.model(pat, h)
    one = lambda st, v: [(st, v)]
    T = eng.trig
    BE = eng.branch_enum
    def conc(x, what='count'):
        if isz(x):
            x = z3.simplify(x)
            if z3.is_int_value(x): return x.as_long()
            raise Inconclusive('symbolic ' + what)
        return int(x)
    # ---------------- f64 ----------------
    def fite(c, a, b): return ite(zb(c), a, b) if isz(c) else (a if c else b)
    M(r'core::f64::<impl f64>::clamp$', lambda e, st, fr, f, a, m: one(st, fite(e.binop('Lt', a[0], a[1]), a[1], fite(e.binop('Gt', a[0], a[2]), a[2], a[0]))))
    M(r'std::f64::<impl f64>::mul_add$', lambda e, st, fr, f, a, m: one(st, fop('Add', fop('Mul', a[0], a[1]), a[2])))
    M(r'core::f64::<impl f64>::recip$', lambda e, st, fr, f, a, m: one(st, fop('Div', fconst(1), a[0])))
    M(r'std::f64::<impl f64>::hypot$', lambda e, st, fr, f, a, m: one(st, F(T.sqrt(a[0].v * a[0].v + a[1].v * a[1].v), b_or(a[0].poison(), a[1].poison()))))
    def tan(e, st, fr, f, a, m):
        s_, c_ = T.sincos(a[0].v); return one(st, F(s_ / c_, b_or(a[0].poison(), c_ == 0)))
    M(r'std::f64::<impl f64>::tan$', tan)
    M(r'std::f64::<impl f64>::atan$', lambda e, st, fr, f, a, m: one(st, F(T.atan2(a[0].v, z3.RealVal(1)), a[0].poison())))
    M(r'std::f64::<impl f64>::asin$', lambda e, st, fr, f, a, m: one(st, F(T.atan2(a[0].v, T.sqrt(1 - a[0].v * a[0].v)), b_or(a[0].poison(), a[0].v < -1, a[0].v > 1))))
    def floorlike(kind):
        def h(e, st, fr, f, a, m):
            x = a[0]; k = fresh(kind, 'int')
            c = {'floor': z3.And(z3.ToReal(k) <= x.v, x.v < z3.ToReal(k) + 1), 'ceil': z3.And(z3.ToReal(k) >= x.v, z3.ToReal(k) < x.v + 1),
                 'trunc': z3.If(x.v >= 0, z3.And(z3.ToReal(k) <= x.v, x.v < z3.ToReal(k) + 1), z3.And(z3.ToReal(k) >= x.v, z3.ToReal(k) < x.v + 1)),
                 'round': z3.If(x.v >= 0, z3.And(z3.ToReal(k) - z3.Q(1, 2) <= x.v, x.v < z3.ToReal(k) + z3.Q(1, 2)), z3.And(z3.ToReal(k) - z3.Q(1, 2) < x.v, x.v <= z3.ToReal(k) + z3.Q(1, 2)))}[kind]
            c = z3.Implies(z3.Not(zb(x.poison())), c); e.side.append(c); e.side_lin.append(c)
            return one(st, F(z3.ToReal(k), x.nan, x.inf))
        return h
    for kind in ('floor', 'ceil', 'trunc', 'round'): M(r'(std|core)::f64::<impl f64>::%s$' % kind, floorlike(kind))
    M(r'core::f64::<impl f64>::is_sign_negative$', lambda e, st, fr, f, a, m: one(st, e.binop('Lt', a[0], fconst(0))))
    M(r'core::f64::<impl f64>::is_sign_positive$', lambda e, st, fr, f, a, m: one(st, e.binop('Ge', a[0], fconst(0))))
    M(r'core::f64::<impl f64>::copysign$', lambda e, st, fr, f, a, m: one(st, fite(e.binop('Lt', a[1], fconst(0)), F(-z3.If(a[0].v >= 0, a[0].v, -a[0].v), a[0].nan, a[0].inf), F(z3.If(a[0].v >= 0, a[0].v, -a[0].v), a[0].nan, a[0].inf))))
    # ---------------- integers ----------------
    def ibin(fn_c, fn_z):
        return lambda e, st, fr, f, a, m: one(st, fn_c(a[0], a[1]) if not isz(a[0]) and not isz(a[1]) else fn_z(zi(a[0]), zi(a[1])))
    M(r'core::num::<impl (usize|u\d+|i\d+|isize)>::saturating_sub$', ibin(lambda x, y: max(x - y, 0), lambda x, y: z3.If(x >= y, x - y, z3.IntVal(0))))
    M(r'core::num::<impl (usize|u\d+|i\d+|isize)>::abs_diff$', ibin(lambda x, y: abs(x - y), lambda x, y: z3.If(x >= y, x - y, y - x)))
    M(r'^<(usize|u\d+|i\d+|isize) as std::cmp::Ord>::max$|^std::cmp::max::<(usize|u\d+|i\d+|isize)>$', ibin(max, lambda x, y: z3.If(x >= y, x, y)))
    M(r'^<(usize|u\d+|i\d+|isize) as std::cmp::Ord>::min$|^std::cmp::min::<(usize|u\d+|i\d+|isize)>$', ibin(min, lambda x, y: z3.If(x <= y, x, y)))
    # ---------------- Option / Result ----------------
    def opt_and_then(e, st, fr, f, a, m):
        o, clo = a; sd = 0 if o.tag == 'Result' else 1
        return BE(st, o, lambda s: e.call_closure(s, fr, clo, [o.items[0]]), lambda s: one(s, o if o.tag == 'Result' else NONE()), sd)
    M(r'^std::(option::Option|result::Result)::<.*>::and_then$', opt_and_then)
    def opt_unwrap_or_else(e, st, fr, f, a, m):
        o, clo = a; sd = 0 if o.tag == 'Result' else 1
        return BE(st, o, lambda s: one(s, o.items[0]), lambda s: e.call_closure(s, fr, clo, [o.items[0]] if o.tag == 'Result' else []), sd)
    M(r'^std::(option::Option|result::Result)::<.*>::unwrap_or_else', opt_unwrap_or_else)
    M(r'^std::option::Option::<.*>::ok_or$', lambda e, st, fr, f, a, m: BE(st, a[0], lambda s: one(s, Ok(a[0].items[0])), lambda s: one(s, Err(a[1]))))
    def ok_or_else(e, st, fr, f, a, m):
        o, clo = a
        return BE(st, o, lambda s: one(s, Ok(o.items[0])), lambda s: [(s2, Err(v)) for s2, v in e.call_closure(s, fr, clo, [])])
    M(r'^std::option::Option::<.*>::ok_or_else', ok_or_else)
    def res_map(e, st, fr, f, a, m):
        o, clo = a
        return BE(st, o, lambda s: [(s2, Ok(v)) for s2, v in e.call_closure(s, fr, clo, [o.items[0]])], lambda s: one(s, o), 0)
    M(r'^std::result::Result::<.*>::map$', res_map)
    def res_map_err(e, st, fr, f, a, m):
        o, clo = a
        return BE(st, o, lambda s: one(s, o), lambda s: [(s2, Err(v)) for s2, v in e.call_closure(s, fr, clo, [o.items[0]])], 0)
    M(r'^std::result::Result::<.*>::map_err', res_map_err)
    M(r'^std::result::Result::<.*>::ok$', lambda e, st, fr, f, a, m: BE(st, a[0], lambda s: one(s, Some(a[0].items[0])), lambda s: one(s, NONE()), 0))
    M(r'^std::result::Result::<.*>::err$', lambda e, st, fr, f, a, m: BE(st, a[0], lambda s: one(s, NONE()), lambda s: one(s, Some(a[0].items[0])), 0))
    def opt_filter(e, st, fr, f, a, m):
        o, clo = a
        def some(s):
            out = []
            for s2, keep in e.call_closure(s, fr, clo, [e.tmp_ref(s, fr, o.items[0])]):
                if isz(keep):
                    s3 = s2.clone(); s3.assume(keep); out.append((s3, o)); s4 = s2.clone(); s4.assume(z3.Not(keep)); out.append((s4, NONE()))
                else: out.append((s2, o if keep else NONE()))
            return out
        return BE(st, o, some, lambda s: one(s, NONE()))
    M(r'^std::option::Option::<.*>::filter', opt_filter)
    M(r'^std::option::Option::<.*>::(cloned|copied)$', lambda e, st, fr, f, a, m: BE(st, a[0], lambda s: one(s, Some(D(s, a[0].items[0]))), lambda s: one(s, NONE())))
    M(r'^std::option::Option::<.*>::or$', lambda e, st, fr, f, a, m: BE(st, a[0], lambda s: one(s, a[0]), lambda s: one(s, a[1])))
    M(r'^std::option::Option::<.*>::unwrap_or_default$', lambda e, st, fr, f, a, m: BE(st, a[0], lambda s: one(s, a[0].items[0]), lambda s: one(s, fconst(0)) if 'f64' in f else (_ for _ in ()).throw(Inconclusive('unwrap_or_default of ' + f[:80]))))
    # ---------------- iterators ----------------
    def need_iter(x):
        if isinstance(x, Enum) and x.tag == 'Option':      # Option<T> is IntoIterator: zero or one element
            from .models_std import _deq
            if not isz(x.disc): return IterV([(True, x.items[0])] if x.disc == 1 else [], 'val')
            return IterV([(_deq(x.disc, 1), x.items[0] if x.items else None)], 'val')
        if isinstance(x, VecV): return IterV(list(x.ents), 'val')
        if type(x) is Agg: return IterV([(True, y) for y in x.items], 'val')        # [T; N] is IntoIterator
        if hasattr(x, 'd') and hasattr(x, 'r'): return IterV([(True, x.at(i, j)) for j in range(x.c) for i in range(x.r)], 'val')      # nalgebra matrix by value: column-major
        return _need_iter(x)
    def _need_iter(x):
        if isinstance(x, RangeV) and not isz(x.items[0]) and not isz(x.items[1]): return IterV([(True, i) for i in range(x.items[0], x.items[1])], 'val')
        if not isinstance(x, IterV): raise Inconclusive('iterator adaptor on ' + type(x).__name__)
        return x
    def dense(it):
        if any(g is not True for g, _ in it.ents): raise Inconclusive('adaptor on a guarded iterator')
        return it
    M(r'^<.* as std::iter::Iterator>::skip$', lambda e, st, fr, f, a, m: one(st, IterV(list(dense(need_iter(a[0])).ents[conc(a[1]):]), need_iter(a[0]).kind)))
    M(r'^<.* as std::iter::Iterator>::take$', lambda e, st, fr, f, a, m: one(st, IterV(list(dense(need_iter(a[0])).ents[:conc(a[1])]), need_iter(a[0]).kind)))
    M(r'^<.* as std::iter::Iterator>::step_by$', lambda e, st, fr, f, a, m: one(st, IterV(list(dense(need_iter(a[0])).ents[::conc(a[1])]), need_iter(a[0]).kind)))
    M(r'^<.* as std::iter::(Iterator|DoubleEndedIterator)>::rev$', lambda e, st, fr, f, a, m: one(st, IterV(list(need_iter(a[0]).ents[::-1]), need_iter(a[0]).kind)))
    M(r'^<.* as std::iter::Iterator>::chain', lambda e, st, fr, f, a, m: one(st, IterV(list(need_iter(a[0]).ents) + list(need_iter(a[1]).ents), 'val')))
    M(r'^<.* as std::iter::Iterator>::count$', lambda e, st, fr, f, a, m: one(st, len(dense(need_iter(D(st, a[0]) if isinstance(a[0], RefV) else a[0])).ents)))
    def it_last(e, st, fr, f, a, m):
        it = dense(need_iter(a[0])); return one(st, Some(it.ents[-1][1]) if it.ents else NONE())
    M(r'^<.* as std::iter::Iterator>::last$', it_last)
    def it_find(e, st, fr, f, a, m):
        r = a[0]; it = need_iter(D(st, r) if isinstance(r, RefV) else r); clo = a[1]; outs = []; cur = st
        endless = getattr(it, 'endless', False)
        for k, (g, x) in enumerate(dense(it).ents):
            if endless and k > e.K:
                e.add_obligation('unwind', cur.pcz(), f'loop bound K={e.K} (search in an endless generator)', cur.frames[fr].body.name); return outs
            cur, hit = e.call1(cur, fr, clo, [e.tmp_ref(cur, fr, x)])
            if isz(hit):
                s1 = cur.clone(); s1.assume(hit); outs.append((s1, Some(x))); cur = cur.clone(); cur.assume(z3.Not(hit))
            elif hit: outs.append((cur, Some(x))); return outs
        outs.append((cur, NONE())); return outs
    M(r'^<.* as std::iter::Iterator>::find$', it_find)
    def it_position(e, st, fr, f, a, m):
        r = a[0]; it = need_iter(D(st, r) if isinstance(r, RefV) else r); clo = a[1]; outs = []; cur = st
        for k, (g, x) in enumerate(dense(it).ents):
            cur, hit = e.call1(cur, fr, clo, [x])
            if isz(hit):
                s1 = cur.clone(); s1.assume(hit); outs.append((s1, Some(k))); cur = cur.clone(); cur.assume(z3.Not(hit))
            elif hit: outs.append((cur, Some(k))); return outs
        outs.append((cur, NONE())); return outs
    M(r'^<.* as std::iter::Iterator>::position$', it_position)
    def fminmax(which):
        def h(e, st, fr, f, a, m):
            it = dense(need_iter(a[0])); acc = None
            for _, x in it.ents:
                x = D(st, x) if isinstance(x, RefV) else x
                if not isinstance(x, F): return NotImplemented
                acc = x if acc is None else fite(e.binop('Lt' if which == 'min' else 'Gt', x, acc), x, acc)
            return one(st, acc)
        return h
    # ---------------- Vec / slices ----------------
    def first_last(which):
        def h(e, st, fr, f, a, m):
            v = D(st, a[0])
            if isinstance(v, VecV) and not v.is_dense(): return NotImplemented
            n = len(v.items)
            return one(st, Some(a[0].sub(0 if which == 'first' else n - 1)) if n else NONE())
        return h
    M(r'core::slice::<impl \[.*\]>::first$', first_last('first'))
    M(r'core::slice::<impl \[.*\]>::last$|^std::vec::Vec::<.*>::last$', first_last('last'))
    def windows(e, st, fr, f, a, m):
        v = D(st, a[0]); n = conc(a[1], 'window size')
        if isinstance(v, VecV) and not v.is_dense(): raise Inconclusive('windows over a guarded Vec')
        items = list(v.items)
        return one(st, IterV([(True, e.tmp_ref(st, 0, VecV.dense(items[i:i + n]))) for i in range(len(items) - n + 1)], 'val'))
    M(r'core::slice::<impl \[.*\]>::windows$', windows)
    def chunks(e, st, fr, f, a, m):
        v = D(st, a[0]); n = conc(a[1], 'chunk size')
        if isinstance(v, VecV) and not v.is_dense(): raise Inconclusive('chunks over a guarded Vec')
        items = list(v.items)
        return one(st, IterV([(True, e.tmp_ref(st, 0, VecV.dense(items[i:i + n]))) for i in range(0, len(items), n)], 'val'))
    M(r'core::slice::<impl \[.*\]>::chunks$', chunks)
    def to_vec(e, st, fr, f, a, m):
        v = D(st, a[0])
        if isinstance(v, VecV): return one(st, v)
        return one(st, VecV.dense(list(v.items)))
    M(r'(core|std)::slice::<impl \[.*\]>::to_vec$', to_vec)
    def extend_from_slice(e, st, fr, f, a, m):
        x, y = D(st, a[0]), D(st, a[1]); ents = list(y.ents) if isinstance(y, VecV) else [(True, i) for i in y.items]
        e.write_ref(st, a[0], VecV(list(x.ents) + ents)); return one(st, UNIT)
    M(r'^std::vec::Vec::<.*>::extend_from_slice$', extend_from_slice)
    def vec_append(e, st, fr, f, a, m):
        x, y = D(st, a[0]), D(st, a[1]); e.write_ref(st, a[0], VecV(list(x.ents) + list(y.ents))); e.write_ref(st, a[1], VecV([])); return one(st, UNIT)
    M(r'^std::vec::Vec::<.*>::append$', vec_append)
    M(r'^<f64 as std::default::Default>::default$|^<f32 as std::default::Default>::default$', lambda e, st, fr, f, a, m: one(st, fconst(0)))
    M(r'^<(usize|u\d+|i\d+|isize) as std::default::Default>::default$', lambda e, st, fr, f, a, m: one(st, 0))
    M(r'^<bool as std::default::Default>::default$', lambda e, st, fr, f, a, m: one(st, False))
    def arr_default(e, st, fr, f, a, m):
        mm = re.match(r'^<\[(f64|f32|usize|u\d+|i\d+|isize|bool); (\d+)\] as std::default::Default>::default$', f)
        if not mm: return NotImplemented
        z = fconst(0) if mm.group(1) in ('f64', 'f32') else (False if mm.group(1) == 'bool' else 0)
        return one(st, Agg([z] * int(mm.group(2))))
    M(r'^<\[.*\] as std::default::Default>::default$', arr_default)
    def vec_index_range(e, st, fr, f, a, m):
        # v[a..], v[..b], v[a..b]: a reference to a read-only copy of the selected elements
        v = D(st, a[0]); r = a[1]
        if isinstance(v, VecV) and not v.is_dense(): raise Inconclusive('range index into a guarded Vec')
        items = list(v.items); tag = getattr(r, 'tag', '') or ''
        if isinstance(r, RangeV): lo, hi = conc(r.items[0], 'range bound'), conc(r.items[1], 'range bound')
        elif 'RangeFrom' in tag or 'RangeFrom' in f: lo, hi = conc(r.items[0], 'range bound'), len(items)
        elif 'RangeTo' in tag or 'RangeTo' in f: lo, hi = 0, conc(r.items[0], 'range bound')
        else: return NotImplemented
        if lo > hi or hi > len(items):
            e.add_obligation('panic', st.pcz(), 'slice index out of range', st.frames[fr].body.name); return []
        return one(st, e.tmp_ref(st, 0, VecV.dense(items[lo:hi])))
    M(r'^<(std::vec::Vec<.*>|\[.*\]) as std::ops::Index<std::ops::Range(From|To)?<usize>>>::index$', vec_index_range)
    def array_map(e, st, fr, f, a, m):
        arr, clo = a; cur = [(st, [])]
        for x in arr.items:
            nxt = []
            for s0, acc in cur:
                for s1, v in e.call_closure(s0, fr, clo, [x]): nxt.append((s1, acc + [v]))
            cur = nxt
        return [(s0, Agg(acc)) for s0, acc in cur]
    M(r'^std::array::<impl \[.*\]>::map$|^std::array::map$', array_map)
    def opt_or_else(e, st, fr, f, a, m):
        o, clo = a
        return BE(st, o, lambda s: one(s, o), lambda s: e.call_closure(s, fr, clo, []))
    M(r'^std::option::Option::<.*>::or_else', opt_or_else)
    def arr_try_from_vec(e, st, fr, f, a, m):
        mm = re.match(r'^<\[.*; (\d+)\] as std::convert::TryFrom<std::vec::Vec<.*>>>::try_from$', f)
        v = a[0]
        if not mm or not isinstance(v, VecV): return NotImplemented
        if not v.is_dense(): raise Inconclusive('array from a guarded Vec')
        return one(st, Ok(Agg(list(v.items))) if len(v.items) == int(mm.group(1)) else Err(v))
    M(r'^<\[.*\] as std::convert::TryFrom<std::vec::Vec<.*>>>::try_from$', arr_try_from_vec)
    def successors(e, st, fr, f, a, m):
        cur, clo = a; out = []
        for _ in range(64):
            if isz(cur.disc): raise Inconclusive('successors over a symbolic option')
            if cur.disc != 1: return one(st, IterV(out, 'val'))
            x = cur.items[0]; out.append((True, x))
            st, cur = e.call1(st, fr, clo, [e.tmp_ref(st, fr, x)])
        # an endless generator: consumers that stop by themselves (find, take, position, any) work on the prefix, bounded by the unwinding bound
        lz = IterV(out, 'val'); lz.endless = True
        return one(st, lz)
    M(r'^std::iter::successors', successors)
    def flat_map(e, st, fr, f, a, m):
        it, clo = need_iter(a[0]), a[1]; out = []
        for g, x in dense(it).ents:
            st, v = e.call1(st, fr, clo, [x])
            if isinstance(v, IterV): out += list(v.ents)
            elif isinstance(v, VecV): out += list(v.ents)
            elif hasattr(v, 'items'): out += [(True, y) for y in v.items]
            else: raise Inconclusive('flat_map over ' + type(v).__name__)
        return one(st, IterV(out, 'val'))
    M(r'^<.* as std::iter::Iterator>::flat_map', flat_map)
    def is_some_and(e, st, fr, f, a, m):
        o, clo = a
        def some(s):
            return [(s2, v) for s2, v in e.call_closure(s, fr, clo, [o.items[0]])]
        return BE(st, o, some, lambda s: one(s, f.split('::<')[0].endswith('is_none_or') or 'is_none_or' in f))
    M(r'^std::option::Option::<.*>::(is_some_and|is_none_or)$', is_some_and)
    def opt_map_or_else(e, st, fr, f, a, m):
        o, dflt, clo = a; sd = 0 if o.tag == 'Result' else 1
        return BE(st, o, lambda s: e.call_closure(s, fr, clo, [o.items[0]]), lambda s: e.call_closure(s, fr, dflt, [o.items[0]] if o.tag == 'Result' else []), sd)
    M(r'^std::(option::Option|result::Result)::<.*>::map_or_else$', opt_map_or_else)
    def res_map_or(e, st, fr, f, a, m):
        o, dflt, clo = a
        return BE(st, o, lambda s: e.call_closure(s, fr, clo, [o.items[0]]), lambda s: one(s, dflt), 0)
    M(r'^std::result::Result::<.*>::map_or$', res_map_or)
    def total_cmp(e, st, fr, f, a, m):
        x, y = D(st, a[0]), D(st, a[1])
        if (isz(x.nan) or x.nan) or (isz(y.nan) or y.nan): raise Inconclusive('total_cmp of a possibly-NaN value')
        lt = e.binop('Lt', x, y); gt = e.binop('Gt', x, y)
        if not isz(lt) and not isz(gt): return one(st, Enum(-1 if lt else (1 if gt else 0), [], 'Ordering'))
        return one(st, Enum(z3.If(zb(lt), -1, z3.If(zb(gt), 1, 0)), [], 'Ordering'))
    M(r'core::f64::<impl f64>::total_cmp$', total_cmp)
    def mem_take(e, st, fr, f, a, m):
        old_ = D(st, a[0])
        if isinstance(old_, VecV): new_ = VecV([])
        elif isinstance(old_, Enum) and old_.tag == 'Option': new_ = NONE()
        elif isinstance(old_, F): new_ = fconst(0)
        elif isinstance(old_, int) and not isinstance(old_, bool): new_ = 0
        else: return NotImplemented
        e.write_ref(st, a[0], new_); return one(st, old_)
    M(r'^std::mem::take$|^std::option::Option::<.*>::take$', mem_take)
    def mem_replace(e, st, fr, f, a, m):
        old_ = D(st, a[0]); e.write_ref(st, a[0], a[1]); return one(st, old_)
    M(r'^std::mem::replace$', mem_replace)
    def nth(e, st, fr, f, a, m):
        r = a[0]; it = dense(need_iter(D(st, r) if isinstance(r, RefV) else r)); n = conc(a[1], 'index')
        if isinstance(r, RefV): e.write_ref(st, r, IterV(list(it.ents[n + 1:]), it.kind))
        return one(st, Some(it.ents[n][1]) if n < len(it.ents) else NONE())
    M(r'^<.* as std::iter::Iterator>::nth$', nth)
    def contains(e, st, fr, f, a, m):
        v = D(st, a[0]); x = D(st, a[1]); acc = False
        ents = v.ents if isinstance(v, VecV) else [(True, y) for y in v.items]
        for g, y in ents:
            if isinstance(x, F): eq = e.binop('Eq', y, x)
            elif isz(x) or isz(y): eq = zi(x) == zi(y)
            elif isinstance(x, (int, bool)): eq = (x == y)
            else: return NotImplemented
            acc = b_or(acc, b_and(g, eq))
        return one(st, acc)
    M(r'core::slice::<impl \[.*\]>::contains$|^std::vec::Vec::<.*>::contains$', contains)
    M(r'^std::iter::once', lambda e, st, fr, f, a, m: one(st, IterV([(True, a[0])], 'val')))
    def find_map(e, st, fr, f, a, m):
        r = a[0]; it = need_iter(D(st, r) if isinstance(r, RefV) else r); clo = a[1]; outs = []; cur = st
        for g, x in dense(it).ents:
            nxt = None
            for s1, o in e.call_closure(cur, fr, clo, [x]):
                if isz(o.disc):
                    sa = s1.clone(); sa.assume(zi(o.disc) == 1); outs.append((sa, Some(o.items[0])))
                    sb = s1.clone(); sb.assume(zi(o.disc) != 1); nxt = sb
                elif o.disc == 1: outs.append((s1, Some(o.items[0])))
                else: nxt = s1
            if nxt is None: return outs
            cur = nxt
        outs.append((cur, NONE())); return outs
    M(r'^<.* as std::iter::Iterator>::find_map$', find_map)
    def opt_zip(e, st, fr, f, a, m):
        x, y = a
        if not isz(x.disc) and not isz(y.disc): return one(st, Some(Agg([x.items[0], y.items[0]])) if x.disc == 1 and y.disc == 1 else NONE())
        if (not isz(x.disc) and x.disc != 1) or (not isz(y.disc) and y.disc != 1): return one(st, NONE())
        return one(st, Enum(z3.If(z3.And(zi(x.disc) == 1, zi(y.disc) == 1), 1, 0), [Agg([x.items[0], y.items[0]])], 'Option'))
    M(r'^std::option::Option::<.*>::zip$', opt_zip)
    def res_or_else(e, st, fr, f, a, m):
        o, clo = a
        return BE(st, o, lambda s: one(s, o), lambda s: e.call_closure(s, fr, clo, [o.items[0]]), 0)
    M(r'^std::result::Result::<.*>::or_else$', res_or_else)
    M(r'^std::result::Result::<.*>::ok_or$|^std::option::Option::<.*>::ok_or$', lambda e, st, fr, f, a, m: BE(st, a[0], lambda s: one(s, Ok(a[0].items[0])), lambda s: one(s, Err(a[1]))))
    def range_map_symbolic(e, st, fr, f, a, m):
        # (lo..hi).map(f) with a symbolic bound: one state per length 0..K (the engine's unwinding bound), an unwinding obligation beyond
        rg, clo = a
        if not isinstance(rg, RangeV) or rg.tag != 'Range' or not (isz(rg.items[0]) or isz(rg.items[1])): return NotImplemented
        lo, hi = zi(rg.items[0]), zi(rg.items[1]); outs = []
        for n in range(e.K + 1):
            s0 = st.clone(); s0.assume((hi - lo <= 0) if n == 0 else (hi - lo == n)); ents = []
            cur = [(s0, [])]
            for k in range(n):
                nxt = []
                for s1, acc in cur:
                    x = z3.simplify(lo + k); x = x.as_long() if z3.is_int_value(x) else x
                    for s2, v in e.call_closure(s1, fr, clo, [x]): nxt.append((s2, acc + [(True, v)]))
                cur = nxt
            outs += [(s1, IterV(acc, 'val')) for s1, acc in cur]
        e.add_obligation('unwind', z3.And(st.pcz(), hi - lo > e.K), f'loop bound K={e.K} (symbolic range in map)', st.frames[fr].body.name)
        return outs
    M(r'^<std::ops::Range<\w+> as std::iter::Iterator>::map$', range_map_symbolic)
    def inspect(e, st, fr, f, a, m):
        # Option::inspect / Result::inspect / Result::inspect_err: run the closure on a reference to the payload of the matching variant, return the value unchanged
        o, clo = a; is_err = f.split('::<')[0].endswith('inspect_err') or 'inspect_err' in f
        want = (1 if o.tag == 'Option' else 0) if not is_err else 1
        def hit(s): return [(s2, o) for s2, _v in e.call_closure(s, fr, clo, [e.tmp_ref(s, fr, o.items[0])])]
        return BE(st, o, hit, lambda s: one(s, o), want)
    M(r'^std::(option::Option|result::Result)::<.*>::(inspect|inspect_err)$', inspect)
    def then_some(e, st, fr, f, a, m):
        b, v = a
        if not isz(b): return one(st, Some(v) if b else NONE())
        return one(st, Enum(z3.If(zb(b), 1, 0), [v], 'Option'))
    M(r'core::bool::<impl bool>::then_some$', then_some)
    def then(e, st, fr, f, a, m):
        b, clo = a
        if not isz(b): return [(s2, Some(v)) for s2, v in e.call_closure(st, fr, clo, [])] if b else one(st, NONE())
        s1 = st.clone(); s1.assume(zb(b)); s2 = st.clone(); s2.assume(z3.Not(zb(b)))
        return [(s3, Some(v)) for s3, v in e.call_closure(s1, fr, clo, [])] + [(s2, NONE())]
    M(r'core::bool::<impl bool>::then$', then)
    M(r'^std::vec::Vec::<.*>::(as_slice|as_mut_slice)$', lambda e, st, fr, f, a, m: one(st, a[0]))
    M(r'^<&?f64 as std::ops::Rem<&?f64>>::rem$', lambda e, st, fr, f, a, m: one(st, e.binop('Rem', D(st, a[0]) if isinstance(a[0], RefV) else a[0], D(st, a[1]) if isinstance(a[1], RefV) else a[1])))
    M(r'^std::time::Instant::now$', lambda e, st, fr, f, a, m: one(st, Opaque('instant')))
    M(r'^std::time::Instant::elapsed$', lambda e, st, fr, f, a, m: one(st, Opaque('duration')))
