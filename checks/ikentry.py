"""Part B harness: the four public inverse entry points of OPWKinematics executed from MIR with inverse_intern* replaced by
their summary (see checks/ik.py). Used by C01, C04, C05, C06, C08."""
import z3
from .common import *
from .robot import *
from . import ik
from .c07 import arc_spec, TWO_PI
from mirsmt.models_na import Mat, Iso

ENTRIES = ('inverse', 'inverse_continuing', 'inverse_5dof', 'inverse_continuing_5dof')

def entry(ck, name, n=2, dof=6, cons='none', prev='finite', sign5=1, weight=None, n_shift=None, pipeline=False, sign46=(1, 1)):
    """cons: 'none' | 'sym' (six symbolic arcs in [-2pi,2pi]); prev: 'finite' ([-2pi,2pi]^6) | 'sentinel'; weight: None -> symbolic in [0,1]
    returns dict with engine, end states [(state, output VecV)], inputs and the log of summaries/candidates"""
    eng = ck.engine(unwind=8, pi_rational=True)
    eng.trig.expand = False; eng.feas_from = 3
    off5 = z3.Real('off5')
    params, pv, off, sign = make_params(off=[RV(0)] * 4 + [off5, RV(0)], sign=[1, 1, 1, sign46[0], sign5, sign46[1]], dof=dof)
    st = eng.new_state(); st.assume(z3.And(off5 >= -TWO_PI, off5 <= TWO_PI))
    info = dict(summaries=[], forward=[], angle_to=[], norm=[], eng=eng, pv=pv, off5=off5, sign5=sign5, dof=dof, sign46=sign46)
    cvars = None
    if cons == 'sym':
        # Constraints value given directly by its centres and half-widths (free reals; C07 proves how Constraints::new derives them from
        # from/to and that compliant() then means arc membership). A half-width >= pi accepts every angle (covers from == to).
        cen = [z3.Real(f'centre{j}') for j in range(6)]; tol = [z3.Real(f'halfwidth{j}') for j in range(6)]
        w = z3.Real('weight') if weight is None else RV(weight)
        for v in cen: st.assume(z3.And(v >= -2 * TWO_PI, v <= 2 * TWO_PI))
        for v in tol: st.assume(z3.And(v >= 0, v <= 2 * TWO_PI))
        if weight is None: st.assume(z3.And(w >= 0, w <= 1))
        cval = Agg([Agg([F(z3.Real(f'cfrom{j}')) for j in range(6)]), Agg([F(z3.Real(f'cto{j}')) for j in range(6)]), Agg([F(x) for x in cen]), Agg([F(x) for x in tol]), F(w)], 'constraints::Constraints')
        cvars = (cen, tol, w); info['cons_value'] = cval
        robot = make_robot(params, cval)
    else: robot = make_robot(params)
    info['cvars'] = cvars
    pose = free_pose_('pose'); info['pose'] = pose
    if prev == 'sentinel': pvec = Agg([F_NAN()] + [fconst(0)] * 5); info['prev'] = None
    else:
        pz = [z3.Real(f'prev{j}') for j in range(6)]
        for v in pz: st.assume(z3.And(v >= -TWO_PI, v <= TWO_PI))
        pvec = Agg([F(x) for x in pz]); info['prev'] = pz
    j6 = z3.Real('j6arg'); info['j6'] = j6; st.assume(z3.And(j6 >= -2 * TWO_PI, j6 <= 2 * TWO_PI))
    ik.install_pose_oracles(eng, info)
    # summaries: n arbitrary finite vectors in [-pi,pi] per call (n_shift for the shifted re-solves), J6 = the caller's value for the 5-DOF kernel
    seen_calls = set()
    def summary(five):
        def h(e, st_, fr, f, a_):
            # the k-th solver call on this path (deterministic function of the path: same k -> same shifted pose -> same answer symbols)
            k = st_.aux.get('ik_calls', 0); st_.aux['ik_calls'] = k + 1
            cnt = n if (k == 0 or n_shift is None) else n_shift
            if five and a_[2].nan is True: cnt = 0      # the 5-DOF kernel cross-checks the position through forward(): a NaN J6 makes every check fail
            sols = []
            for i in range(cnt):
                js = [z3.Real(f'ik{k}_s{i}_j{j}') for j in range(6)]
                for j in range(5 if five else 6): st_.assume(z3.And(js[j] >= -PI, js[j] <= PI))
                vals = [F(x) for x in js]
                if five: vals[5] = a_[2]
                sols.append(Agg(vals))
            if k not in seen_calls:
                seen_calls.add(k); info['summaries'].append(dict(call=k, pose=e.deref(st_, a_[1]), sols=sols, five=five, j6=a_[2] if five else None))
            return [(st_, VecV.dense(sols))]
        return h
    eng.overrides[eng.find('::inverse_intern', 'kinematics_impl::<impl at')] = summary(False)
    eng.overrides[eng.find('::inverse_intern_5_dof', 'kinematics_impl::<impl at')] = summary(True)
    if pipeline: install_pipeline_summaries(eng, info)
    rr = eng.tmp_ref(st, 0, robot); rp = eng.tmp_ref(st, 0, pose)
    if name == 'inverse': args = [rr, rp]
    elif name == 'inverse_5dof': args = [rr, rp, F(j6)]
    else: args = [rr, rp, eng.tmp_ref(st, 0, pvec)]
    from mirsmt import values as _v
    _v.CONFIG['merge_vec_lengths'] = False
    try: res = eng.call_body(st, opw_fn(eng, name), args)
    finally: _v.CONFIG['merge_vec_lengths'] = True
    ck.states += len(res)
    info['results'] = res
    return info

def install_pipeline_summaries(eng, info):
    """normalize_near, sort_by_closeness, filter_constraints_compliant, constraints_compliant replaced by logging summaries whose contracts are
    proved on their own MIR elsewhere (C04 leaf + comparator, C07 filter): the entry point is then checked for HOW it composes them"""
    info.update(norm_calls=[], sort_calls=[], filter_calls=[], ccomp_calls=[])
    def normalize_near(e, st, fr, f, a):
        ref, p = a; x = e.read_ref(st, ref)
        x2 = fresh('nn'); m = fresh('nnk', 'int')
        st.assume(z3.And(x2 == x.v + TWO_PI * z3.ToReal(m), m >= -3, m <= 3, z3.Implies(x.v == p.v, x2 == x.v), z3.Implies(z3.And(x.v >= -PI, x.v <= PI, p.v >= -TWO_PI, p.v <= TWO_PI), z3.And(x2 - p.v <= PI, p.v - x2 <= PI))))
        out = F(x2, x.nan, x.inf); e.write_ref(st, ref, out)
        info['norm_calls'].append(dict(ref=ref, src=x, prev=p, out=out)); return [(st, UNIT)]
    eng.overrides[eng.find('kinematics_impl::normalize_near')] = normalize_near
    def sort_by(e, st, fr, f, a):
        lst = e.deref(st, a[1]); info['sort_calls'].append(dict(lst=lst, prev=e.deref(st, a[2]), prev_ref=a[2])); return [(st, UNIT)]
    eng.overrides[eng.find('::sort_by_closeness', 'kinematics_impl::<impl at')] = sort_by
    def filt(e, st, fr, f, a):
        rob = e.deref(st, a[0]); lst = a[1]
        if rob.items[1].disc == 0: out = lst
        else: out = VecV([(b_and(g, z3.Bool(f'compliant{len(info["filter_calls"])}_{i}')), v) for i, (g, v) in enumerate(lst.ents)])
        info['filter_calls'].append(dict(lst=lst, out=out)); return [(st, out)]
    eng.overrides[eng.find('::filter_constraints_compliant', 'kinematics_impl::<impl at')] = filt
    def ccomp(e, st, fr, f, a):
        rob = e.deref(st, a[0])
        r = True if rob.items[1].disc == 0 else z3.Bool(f'cand_compliant{len(info["ccomp_calls"])}')
        info['ccomp_calls'].append(dict(arg=a[1], res=r)); return [(st, r)]
    eng.overrides[eng.find('::constraints_compliant', 'kinematics_impl::<impl at')] = ccomp

def check_pipeline(ck, name, kw, props):
    """inverse_continuing / inverse_continuing_5dof: how the entry point composes kernel, singular candidate, normalisation, sorting, filtering"""
    info = entry(ck, name, pipeline=True, **kw)
    eng = info['eng']
    five = name.endswith('5dof')
    label = f"{name}[pipeline,{','.join(f'{k}={v}' for k, v in kw.items())}]: "
    S = sorted(info['summaries'], key=lambda r: r['call']); first = S[0]['sols'] if S else []
    prev = info['prev']; pose = info['pose']
    def search(prop):
        def f():
            c = dict(entry=name, dof=info['dof'], sign=[1.0, 1.0, 1.0, float(info['sign46'][0]), float(info['sign5']), float(info['sign46'][1])], search='true', part='B', prop=prop)
            if info['cvars'] is not None: c['constrained'] = 'true'
            if kw.get('prev') == 'sentinel': c['sentinel'] = 'true'
            return c
        return f
    def structural(prop, nm, ok, ctx=()):
        ck.decide(label + nm, eng, list(ctx), z3.BoolVal(not ok), lambda m: search(prop)(), what=label + nm + ' fails', nomodel_case=search(prop), tries=1)
    def solver(prop, nm, ctx, goal):
        ck.decide(label + nm, eng, list(ctx), goal, lambda m: search(prop)(), what=label + nm + ' fails', nomodel_case=search(prop), abstract=True, tries=1)
    if info['dof'] == 5 and name == 'inverse_continuing':
        # a robot declared 5-DOF must answer like inverse_continuing_5dof
        structural('C06', 'dof=5: the 5-DOF kernel is used and the result is normalised, sorted and filtered', bool(info['filter_calls']) and bool(info['sort_calls']) and bool(S) and S[0]['five'])
    for st, out in info['results']:
        ctx = list(st.pc)
        fc = [c for c in info['filter_calls'] if same(c['out'], out)]
        structural('C08', 'the returned list is the output of the constraint filter', bool(fc), ctx)
        if not fc: continue
        sc = [c for c in info['sort_calls'] if len(c['lst'].ents) == len(fc[-1]['lst'].ents) and all(same(x, y) for x, y in zip(c['lst'].items, fc[-1]['lst'].items))]
        structural('C04', 'the filtered list is the list that was sorted by closeness (same elements)', bool(sc), ctx)
        if not sc: continue
        sc = sc[-1]
        # effective previous handed to the sort
        if prev is not None: peff = [F(x) for x in prev]
        elif info['cvars'] is not None: peff = [F(x) for x in info['cvars'][0]]
        else: peff = [fconst(0)] * 6
        structural('C04', 'sorting is relative to the effective previous (given joints, or constraint centres / zeros for the sentinel)', all(same(a_, b_) for a_, b_ in zip(sc['prev'].items, peff)), ctx)
        elems = list(sc['lst'].items)
        cands = [a for a, r in info['forward']]
        srcs = []
        for ei, el in enumerate(elems):
            src_j = []; okn = True
            for j in range(6):
                nc = [c for c in info['norm_calls'] if same(c['out'], el.items[j])]
                if not nc or not same(nc[-1]['prev'], peff[j]): okn = False; src_j.append(None); continue
                src_j.append(nc[-1]['src'])
            structural('C04', f'element {ei}: every joint went through normalize_near against the effective previous of that joint', okn, ctx)
            if not okn: srcs.append(None); continue
            which = None
            for k, s_ in enumerate(first):
                if all(same(src_j[j], s_.items[j]) for j in range(6)): which = ('kernel', k)
            srcs.append(which)
            if which is None:
                # not a kernel answer: it must be one of the singular candidates (the end state merges the paths of the four shifted re-solves),
                # and that candidate must have passed the cross-check against the UNSHIFTED pose and the limits
                alts = []
                for c in cands:
                    gate = gate_of(info, c, pose); cc = [x for x in info['ccomp_calls'] if same(x['arg'], c)]
                    if gate is None or not cc: continue
                    alts.append(z3.And(*[src_j[j].v == c.items[j].v for j in range(6)], gate, zb(cc[-1]['res'])))
                solver('C01', f'element {ei} is an answer of the unshifted kernel call, or a singular candidate that passed the pose cross-check (unshifted pose) and the limits', ctx, z3.Not(z3.Or(alts)) if alts else z3.BoolVal(True))
                if prev is not None and 'C05' in props:
                    s4, s6 = info['sign46']      # "the same amount": the same rotation once both joints are counted in the same direction (their sign corrections)
                    d4, d6 = src_j[3].v - prev[3], src_j[5].v - prev[5]
                    # equal sign corrections: the very same signed amount; different ones: the same amount in magnitude (which direction counts as "the same" then depends on
                    # the kind of singularity; the pose cross-check that gates the candidate decides it)
                    # equal sign corrections: the very same signed amount. Different ones: which direction counts as "the same" depends on the kind of singularity and the
                    # disjunction is beyond the 3 s budget of this query; there the clause is left to the pose cross-check that gates the candidate (decided above) and to the
                    # native turned-tool battery
                    if s4 == s6: solver('C05', f'element {ei} (singular candidate): J4 and J6 move by the same amount from previous', ctx, d4 != d6)
                    # the shift is half of an angle wrapped into [-pi,pi]: at most a quarter turn, so a previous that already realises the pose is kept (shift 0, not +-pi)
                    solver('C05', f'element {ei} (singular candidate): J4/J6 shift is at most a quarter turn (the wrapped half-difference)', ctx, z3.Or(src_j[3].v - prev[3] > PI / 2, prev[3] - src_j[3].v > PI / 2))
        kern = [w[1] for w in srcs if w and w[0] == 'kernel']
        structural('C04', 'every answer of the unshifted kernel call is kept, once, in order (superset of plain inverse before filtering)', kern == list(range(len(first))), ctx)
        structural('C01', 'at most one extra (singular) answer', len(elems) - len(kern) <= 1, ctx)
        if five and 'C06' in props:
            want = prev[5] if prev is not None else None
            structural('C06', 'the 5-DOF kernel received the previous J6', bool(S) and S[0]['j6'] is not None and (want is None or same(S[0]['j6'], F(want))), ctx)
            if want is not None:
                for ei, el in enumerate(elems): solver('C06', f'element {ei}: J6 equals the previous J6', ctx, el.items[5].v != want)
    for ob in eng.obligations:
        ck.decide(label + f"{ob['kind']} unreachable: {ob['msg'][:40]}", eng, [ob['cond']], z3.BoolVal(True), lambda m: search('C01')(), nomodel_case=search('C01'), abstract=True, tries=1)
    return info

def free_pose_(tag):
    return Iso(Mat(3, 3, [F(z3.Real(f'{tag}_r{i}{k}')) for i in range(3) for k in range(3)], 'rot'), Mat(3, 1, [F(z3.Real(f'{tag}_t{i}')) for i in range(3)]))

def c01_part_b(ck): pass

# =====================================================================================================================
# obligations over the result of entry()
def abs_(x): return z3.If(x >= 0, x, -x)

def match_mod(v, src, exact=False, joints=range(6)):
    """v is src up to whole turns per joint (exact: identical)"""
    cs = []
    for j in joints:
        a, b = v.items[j].v, src.items[j].v
        cs.append(a == b if exact else z3.Or(a == b, a == b + TWO_PI, a == b - TWO_PI, a == b + 2 * TWO_PI, a == b - 2 * TWO_PI))
    return z3.And(cs)

def compliant_spec(info, v):
    """acceptance by the attached limits, as a formula: the distance of v_j to the centre, folded into [0,pi], is at most the half-width"""
    if info['cvars'] is None: return z3.BoolVal(True)
    cen, tol, w = info['cvars']; cs = []
    for j in range(6):
        k = z3.FreshInt('kc'); d = z3.FreshReal('dc')
        info['spec_defs'] += [d == abs_(v.items[j].v - cen[j]) - TWO_PI * z3.ToReal(k), d >= 0, d < TWO_PI]
        cs.append(z3.If(d > PI, TWO_PI - d, d) <= tol[j])
    return z3.And(cs)

def gate_of(info, cand, pose, five=False):
    """did the code compare forward(cand) with `pose` within 1e-6/1e-6 ? (looked up in the oracle logs)"""
    Fs = [r for a, r in info['forward'] if same(a, cand)]
    if not Fs: return None
    n = ik.norm_of_diff(info, pose.t, Fs[-1].t)
    if n is None: return None
    g = z3.And(z3.Not(zb(n.poison())), n.v <= ik.TOL)
    if not five:
        A = [a for pr, fr_, a in info['angle_to'] if same(fr_, Fs[-1].R) and same(pr, pose.R)]
        if not A: return None
        g = z3.And(g, A[-1] <= ik.TOL)
    return g

def check_entry(ck, name, kw, props):
    """run one configuration and discharge the obligations of the listed properties"""
    info = entry(ck, name, **kw)
    eng = info['eng']; info['spec_defs'] = []
    five = name.endswith('5dof') or info['dof'] == 5
    cont = 'continuing' in name
    label = f"{name}[{','.join(f'{k}={v}' for k, v in kw.items())}]: "
    S = sorted(info['summaries'], key=lambda r: r['call'])
    first = S[0]['sols'] if S else []
    prev = info['prev']; pose = info['pose']
    def search(prop):
        def f():
            c = dict(entry=name, dof=info['dof'], sign=[1.0, 1.0, 1.0, float(info['sign46'][0]), float(info['sign5']), float(info['sign46'][1])], search='true', part='B', prop=prop)
            if info['cvars'] is not None: c['constrained'] = 'true'
            if kw.get('prev') == 'sentinel': c['sentinel'] = 'true'
            if 'weight' in kw and kw['weight'] is not None: c['weight'] = float(kw['weight'])
            return c
        return f
    def dec(prop, nm, ctx, goal):
        return ck.decide(label + nm, eng, ctx + info['spec_defs'], goal, lambda m: search(prop)(), what=label + nm + ' fails', nomodel_case=search(prop), tries=1)
    # effective previous (sentinel -> constraint centres or zeros)
    if cont:
        if prev is not None: peff = prev
        elif info['cvars'] is not None: peff = info['cvars'][0]
        else: peff = [RV(0)] * 6
    for st, out in info['results']:
        ctx = list(st.pc)
        if not isinstance(out, VecV): dec('C01', 'result is a list', ctx, z3.BoolVal(True)); continue
        ents = list(out.ents)
        cands = [a for a, r in info['forward']]
        # ---- C01: membership / gating / finiteness ----
        if 'C01' in props:
            for i, (g, v) in enumerate(ents):
                alts = [match_mod(v, s, exact=not cont, joints=range(5) if five else range(6)) for s in first]
                for c in cands:
                    gate = gate_of(info, c, pose, five=False)
                    if gate is not None: alts.append(z3.And(match_mod(v, c), gate))
                dec('C01', f'answer {i} is an answer of the (unshifted) kernel call or the gated singular candidate', ctx + [zb(g)], z3.Not(z3.Or(alts)) if alts else z3.BoolVal(True))
                dec('C01', f'answer {i} finite', ctx + [zb(g)], z3.Or([zb(v.items[j].poison()) for j in range(5 if five else 6)]))
        # ---- C06: J6 is the caller's value ----
        if 'C06' in props and five:
            want = info['j6'] if name == 'inverse_5dof' else (prev[5] if (prev is not None and name != 'inverse') else None)
            if name == 'inverse' or (name == 'inverse_continuing' and prev is None): want = None
            for i, (g, v) in enumerate(ents):
                if name == 'inverse': goal = z3.Or(zb(v.items[5].poison()), v.items[5].v != 0)
                elif want is not None: goal = z3.Or(zb(v.items[5].poison()), v.items[5].v != want)
                else: continue
                dec('C06', f'answer {i} carries the caller J6', ctx + [zb(g)], goal)
            # the kernel must have been asked with a finite J6 (otherwise it can return nothing at all)
            ok = bool(S) and S[0]['five'] and S[0]['j6'] is not None and S[0]['j6'].nan is False
            dec('C06', 'the 5-DOF kernel is called with a finite J6', ctx, z3.BoolVal(not ok))
        # ---- C08: exactly the compliant ones ----
        if 'C08' in props or 'C04' in props:
            comp_out = [compliant_spec(info, v) for g, v in ents]
            if 'C08' in props:
                for i, (g, v) in enumerate(ents): dec('C08', f'answer {i} satisfies the limits', ctx + [zb(g)], z3.Not(comp_out[i]))
            # every compliant answer of the kernel (first call) is returned (as its representative)
            for k, s_ in enumerate(first):
                present = z3.Or([z3.And(zb(g), match_mod(v, s_, exact=not cont, joints=range(5) if five else range(6))) for g, v in ents]) if ents else z3.BoolVal(False)
                dec('C08' if 'C08' in props else 'C04', f'kernel answer {k} that satisfies the limits is returned', ctx + [compliant_spec(info, s_)], z3.Not(present))
        # ---- C04: nearest representative, ordering ----
        if 'C04' in props and cont:
            for i, (g, v) in enumerate(ents):
                rng = range(5) if (five and name != 'inverse_continuing_5dof') else range(6)
                dec('C04', f'answer {i}: every angle is the representative nearest to previous', ctx + [zb(g)], z3.Or([abs_(v.items[j].v - peff[j]) > PI for j in rng]))
            if not (info['dof'] == 5 and name == 'inverse_continuing') or True:
                w = info['cvars'][2] if info['cvars'] is not None else RV(0)
                def cost(v):
                    dp = sum(abs_(v.items[j].v - peff[j]) for j in range(6))
                    if info['cvars'] is None: return dp
                    dc = sum(abs_(v.items[j].v - info['cvars'][0][j]) for j in range(6))
                    return dp * (1 - w) + dc * w
                for i in range(len(ents)):
                    for j in range(i + 1, len(ents)):
                        dec('C04', f'answers {i},{j} in non-decreasing order of the documented cost', ctx + [zb(ents[i][0]), zb(ents[j][0])], cost(ents[i][1]) > cost(ents[j][1]))
            # previous realises the pose (it is a kernel answer) and passes the limits => it is the first answer
            if prev is not None and first and not five:
                s0 = first[0]
                hyp = [s0.items[j].v == prev[j] for j in range(6)] + [compliant_spec(info, s0)]
                nonsing = []
                for i, (g, v) in enumerate(ents):
                    firstp = z3.And(zb(g), *[z3.Not(zb(ents[k][0])) for k in range(i)])
                    dec('C04', f'previous joints realise the pose => they are the first answer (answer {i} first)', ctx + hyp + [firstp], z3.Or([v.items[j].v != prev[j] for j in range(6)]) if False else cost(v) > 0)
        # ---- C05b: singular candidate moves J4 and J6 by the same amount ----
        if 'C05' in props and cont and not five and prev is not None:
            for ci, c in enumerate(cands):
                dec('C05', f'singular candidate {ci}: J4 and J6 move by the same amount from previous', ctx, c.items[3].v - prev[3] != c.items[5].v - prev[5])
    # panics / unwinding
    for ob in eng.obligations:
        ck.decide(label + f"{ob['kind']} unreachable: {ob['msg'][:40]}", eng, [ob['cond']], z3.BoolVal(True), lambda m: search('C01')(), nomodel_case=search('C01'), abstract=True, tries=1)
    return info

def configs(ck, props):
    """(kind, entry point, kwargs): plain pipelines are checked functionally (check_entry), the continuation entry points structurally
    (check_pipeline) with their components proved separately"""
    q = ck.tier == 'quick'
    out = []
    for dof in (6, 5):
        for name in ('inverse', 'inverse_5dof'):
            for cons, wgt in (('none', None), ('sym', 0)):
                for n in ((2,) if q else (0, 1, 2, 3)):
                    kw = dict(n=n, dof=dof, cons=cons)
                    if cons == 'sym': kw['weight'] = wgt
                    out.append(('entry', name, kw))
        for name in ('inverse_continuing', 'inverse_continuing_5dof'):
            for cons, wgt in (('none', None), ('sym', 0)) + ((('sym', 1),) if not q else ()):
                for prev in ('finite', 'sentinel'):
                    if prev == 'sentinel' and (name.endswith('5dof') or dof == 5): continue    # the 5-DOF variants need a finite previous J6
                    for n in ((2,) if q else (0, 1, 2, 3)):
                        kw = dict(n=n, dof=dof, cons=cons, prev=prev)
                        if cons == 'sym': kw['weight'] = wgt
                        out.append(('pipeline', name, kw))
                        if 'C05' in props and name == 'inverse_continuing' and dof == 6 and cons == 'none' and prev == 'finite':
                            # J4 and J6 reversed together / separately (the recovered answer redistributes their common rotation)
                            for s46 in ((-1, -1),): out.append(('pipeline', name, dict(kw, sign46=s46)))
    return out

def run_props(ck, props):
    mirdump.load(REPO); ensure_replay()
    jobs = [('checks.ikentry', 'check_entry' if kind == 'entry' else 'check_pipeline', (name, kw, props)) for kind, name, kw in configs(ck, props)]
    ck.notes.append(f'{len(jobs)} entry-point configurations')
    ck.parallel(jobs)

def c01_part_b(ck):
    run_props(ck, ('C01',))
