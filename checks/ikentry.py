"""Part B harness: the four public inverse entry points of OPWKinematics executed from MIR with inverse_intern* replaced by
their summary (see checks/ik.py). Used by C01, C04, C05, C06, C08."""
import z3
from .common import *
from .robot import *
from . import ik
from .c07 import arc_spec, TWO_PI
from mirsmt.models_na import Mat, Iso

ENTRIES = ('inverse', 'inverse_continuing', 'inverse_5dof', 'inverse_continuing_5dof')

def entry(ck, name, n=2, dof=6, cons='none', prev='finite', sign5=1, weight=None, n_shift=None):
    """cons: 'none' | 'sym' (six symbolic arcs in [-2pi,2pi]); prev: 'finite' ([-2pi,2pi]^6) | 'sentinel'; weight: None -> symbolic in [0,1]
    returns dict with engine, end states [(state, output VecV)], inputs and the log of summaries/candidates"""
    eng = ck.engine(unwind=8, pi_rational=True)
    eng.trig.expand = False; eng.feas_from = 3
    off5 = z3.Real('off5')
    params, pv, off, sign = make_params(off=[RV(0)] * 4 + [off5, RV(0)], sign=[1, 1, 1, 1, sign5, 1], dof=dof)
    st = eng.new_state(); st.assume(z3.And(off5 >= -TWO_PI, off5 <= TWO_PI))
    info = dict(summaries=[], forward=[], angle_to=[], norm=[], eng=eng, pv=pv, off5=off5, sign5=sign5, dof=dof)
    cvars = None
    if cons == 'sym':
        # Constraints value given directly by its centres and half-widths (free reals; C07 proves how Constraints::new derives them from
        # from/to and that compliant() then means arc membership). A half-width >= pi accepts every angle (covers from == to).
        cen = [z3.Real(f'centre{j}') for j in range(6)]; tol = [z3.Real(f'halfwidth{j}') for j in range(6)]
        w = z3.Real('weight') if weight is None else RV(weight)
        for v in cen: st.assume(z3.And(v >= -2 * TWO_PI, v <= 2 * TWO_PI))
        for v in tol: st.assume(z3.And(v >= 0, v <= 2 * TWO_PI))
        if weight is None: st.assume(z3.And(w >= 0, w <= 1))
        cval = Agg([Agg([F(z3.Real(f'cfrom{j}')) for j in range(6)]), Agg([F(z3.Real(f'cto{j}')) for j in range(6)]), Agg([F(x) for x in cen]), Agg([F(x) for x in tol]), F(w)], 'constraints::Constraints')
        cvars = (cen, tol, w); info['cons_value'] = cval
        robot = make_robot(params, cval)
    else: robot = make_robot(params)
    info['cvars'] = cvars
    pose = free_pose_('pose'); info['pose'] = pose
    if prev == 'sentinel': pvec = Agg([F_NAN()] + [fconst(0)] * 5); info['prev'] = None
    else:
        pz = [z3.Real(f'prev{j}') for j in range(6)]
        for v in pz: st.assume(z3.And(v >= -TWO_PI, v <= TWO_PI))
        pvec = Agg([F(x) for x in pz]); info['prev'] = pz
    j6 = z3.Real('j6arg'); info['j6'] = j6
    ik.install_pose_oracles(eng, info)
    # summaries: n arbitrary finite vectors in [-pi,pi] per call (n_shift for the shifted re-solves), J6 = the caller's value for the 5-DOF kernel
    seen_calls = set()
    def summary(five):
        def h(e, st_, fr, f, a_):
            # the k-th solver call on this path (deterministic function of the path: same k -> same shifted pose -> same answer symbols)
            k = st_.aux.get('ik_calls', 0); st_.aux['ik_calls'] = k + 1
            cnt = n if (k == 0 or n_shift is None) else n_shift
            sols = []
            for i in range(cnt):
                js = [z3.Real(f'ik{k}_s{i}_j{j}') for j in range(6)]
                for j in range(5 if five else 6): st_.assume(z3.And(js[j] >= -PI, js[j] <= PI))
                vals = [F(x) for x in js]
                if five: vals[5] = a_[2]
                sols.append(Agg(vals))
            if k not in seen_calls:
                seen_calls.add(k); info['summaries'].append(dict(call=k, pose=e.deref(st_, a_[1]), sols=sols, five=five, j6=a_[2] if five else None))
            return [(st_, VecV.dense(sols))]
        return h
    eng.overrides[eng.find('::inverse_intern', 'kinematics_impl::<impl at')] = summary(False)
    eng.overrides[eng.find('::inverse_intern_5_dof', 'kinematics_impl::<impl at')] = summary(True)
    rr = eng.tmp_ref(st, 0, robot); rp = eng.tmp_ref(st, 0, pose)
    if name == 'inverse': args = [rr, rp]
    elif name == 'inverse_5dof': args = [rr, rp, F(j6)]
    else: args = [rr, rp, eng.tmp_ref(st, 0, pvec)]
    from mirsmt import values as _v
    _v.CONFIG['merge_vec_lengths'] = False
    try: res = eng.call_body(st, opw_fn(eng, name), args)
    finally: _v.CONFIG['merge_vec_lengths'] = True
    ck.states += len(res)
    info['results'] = res
    return info

def free_pose_(tag):
    return Iso(Mat(3, 3, [F(z3.Real(f'{tag}_r{i}{k}')) for i in range(3) for k in range(3)], 'rot'), Mat(3, 1, [F(z3.Real(f'{tag}_t{i}')) for i in range(3)]))

def c01_part_b(ck): pass
