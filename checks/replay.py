"""Re-run a stored counterexample natively: python3-vt -m checks.replay <path>"""
import json, sys
from .common import *
if __name__ == '__main__':
    d = json.load(open(sys.argv[1])); ck = Check(d['property'])
    r = ck.replay(d['case']); print(json.dumps(r, indent=1)); sys.exit(1 if r.get('reproduced') else 0)
