"""C10 — collision verdicts equal a brute-force pairwise check at the safety distances.

A. Task list (real MIR: detect_collisions_with_skips, check_required, count_tasks, SafetyDistances::min_distance): for tool/base present or absent,
   0..2 environment objects and an ARBITRARY safety table (HashMap oracle: symbolic presence + value for every key), the list of (pair, meshes, poses)
   handed to the collision kernel is exactly the relevant-pair set of the property text, each pair present iff it is not marked never-colliding (either key order).
B. Per-pair verdict (CollisionTask::collides) and modes (process_collision_tasks) with parry3d and rayon as ORACLES: TOUCH_ONLY => intersection test,
   r > 0 => distance <= r (given the geometric pre-filter assumption, listed below), reported as (min,max); all-collisions = exactly the hits, first-collision
   = one of the hits iff any (for every choice rayon may make), no-check = nothing.
C. RobotBody::collides / collision_details / near: link poses from the robot's forward_with_joint_poses (oracle), same task list, near() uses the table it is given.
Outside the claim: everything inside parry3d (mesh intersection/distance/BVH), in particular whether a loosened bounding box of the smaller mesh always meets a
body that is within the safety distance (assumed); real thread schedules (rayon's contract, not its implementation).
"""
import z3
from .common import *
from mirsmt.oracles import install_collections, install_dynkin, DynKin, SetV, MapOracle

J_TOOL, J_BASE, ENV = 100, 101, 1000
NEVER = RV(-1)

def cfn(eng, name, nargs=None):
    c = [n for n in eng.bodies if n.startswith('collisions::<impl at') and n.endswith('::' + name)]
    if nargs is not None: c = [n for n in c if eng.bodies[n].nargs == nargs]
    if len(c) != 1: raise Inconclusive(f'collisions::{name}: {len(c)} candidates')
    return c[0]

def mesh(n): return Opaque('mesh', n)
def pose(n): return Opaque('pose', n)

def make_body(eng, tool, base, nenv, table, mode=1):
    safety = Agg([F(z3.Real('to_env')), F(z3.Real('to_robot')), table, Enum(mode, [], 'CheckMode')], 'collisions::SafetyDistances')
    env = VecV.dense([Agg([mesh(f'env{k}'), pose(f'envpose{k}')], 'collisions::CollisionBody') for k in range(nenv)])
    return Agg([Agg([mesh(f'link{i}') for i in range(6)]), Some(mesh('tool')) if tool else NONE(), Some(Agg([mesh('base'), pose('basepose')], 'collisions::BaseBody')) if base else NONE(), env, safety], 'collisions::RobotBody')

def spec_min_distance(table, a, b):
    """property text: per-pair override in either key order, else environment / robot default"""
    h1, v1 = table.entry((a, b)); h2, v2 = table.entry((b, a))
    dflt = z3.Real('to_env') if (a >= ENV or b >= ENV) else z3.Real('to_robot')
    return z3.If(h1, v1, z3.If(h2, v2, dflt))

def relevant_pairs(tool, base, nenv, skip):
    """(i, j, mesh_i, pose_i, mesh_j, pose_j) of every pair the property calls relevant; with a skip set (C14) pairs of two UNMOVED bodies are not needed"""
    unmoved = lambda k: (k in skip) or k >= ENV or k == J_BASE
    out = []
    link = lambda i: (mesh(f'link{i}'), pose(f'link{i}'))
    for i in range(6):
        for j in range(i + 2, 6): out.append((i, j) + link(i) + link(j))
        for k in range(nenv): out.append((i, ENV + k) + link(i) + (mesh(f'env{k}'), pose(f'envpose{k}')))
        if tool and i <= 3: out.append((i, J_TOOL) + link(i) + (mesh('tool'), pose('link5')))
        if base and i >= 1: out.append((i, J_BASE) + link(i) + (mesh('base'), pose('basepose')))
    if tool:
        for k in range(nenv): out.append((J_TOOL, ENV + k, mesh('tool'), pose('link5'), mesh(f'env{k}'), pose(f'envpose{k}')))
        if base: out.append((J_TOOL, J_BASE, mesh('tool'), pose('link5'), mesh('base'), pose('basepose')))
    return [p for p in out if not (unmoved(p[0]) and unmoved(p[1]))]

def task_list(ck, tool, base, nenv, skip, own_table=True):
    eng = ck.engine(unwind=10); install_collections(eng)
    table = MapOracle('tbl'); other = MapOracle('given') if not own_table else table
    st = eng.new_state()
    body = make_body(eng, tool, base, nenv, table)
    given_safety = body.items[4] if own_table else Agg([F(z3.Real('to_env')), F(z3.Real('to_robot')), other, Enum(1, [], 'CheckMode')], 'collisions::SafetyDistances')
    captured = []
    def capture(e, st_, fr, f, a): captured.append((st_, a[0], a[1], a[2])); return [(st_, VecV([]))]
    eng.overrides[cfn(eng, 'process_collision_tasks')] = capture
    poses = Agg([pose(f'link{i}') for i in range(6)])
    rb = eng.tmp_ref(st, 0, body)
    res = eng.call_body(st, eng.bodies[cfn(eng, 'detect_collisions_with_skips')], [rb, eng.tmp_ref(st, 0, poses), eng.tmp_ref(st, 0, given_safety) if not own_table else rb.sub(4), eng.tmp_ref(st, 0, NONE()), eng.tmp_ref(st, 0, SetV(skip))])
    ck.states += len(res)
    return eng, captured, other, table

def tok(x, eng, st):
    v = eng.deref(st, x)
    return (v.kind, v.name) if isinstance(v, Opaque) else None

def check_task_list(ck, tool, base, nenv, skip=(), own_table=True, prop='C10'):
    eng, captured, table, own_tbl = task_list(ck, tool, base, nenv, set(skip), own_table)
    label = f"tasks[tool={int(tool)},base={int(base)},env={nenv},skip={sorted(skip)}{'' if own_table else ',table given to near()'}]: "
    def case(extra=None):
        def f(m=None):
            c = dict(tool=int(tool), base=int(base), nenv=nenv, skip=sorted(skip), clause='tasks', own_table=int(own_table)); c.update(extra or {})
            if m is not None:
                def dump(tb):
                    out = []
                    for k, (h, v) in tb.data.items():
                        if z3.is_true(m.eval(h, model_completion=True)): out += [k[0], k[1], model_float(m, v)]
                    return out
                c['table'] = dump(own_tbl) if not own_table else dump(table)
                if not own_table: c['given'] = dump(table)
                c['to_env'] = model_float(m, z3.Real('to_env')); c['to_robot'] = model_float(m, z3.Real('to_robot'))
            else: c.pop('pair', None)
            return c
        return f
    if len(captured) != 1:
        ck.decide(label + 'the task list is handed to the kernel exactly once', eng, [], z3.BoolVal(True), case()); return
    st, tasks, _, _ = captured[0]
    ents = list(tasks.ents) if isinstance(tasks, VecV) else []
    ctx = list(st.pc)
    spec = relevant_pairs(tool, base, nenv, set(skip))
    seen = set()
    for (i, j, mi, pi_, mj, pj) in spec:
        hits = [(g, t) for g, t in ents if not isz(t.items[0]) and not isz(t.items[1]) and {int(t.items[0]), int(t.items[1])} == {i, j}]
        seen.add(frozenset((i, j)))
        allowed = spec_min_distance(table, i, j) > NEVER
        pc = case(dict(pair=[i, j]))
        if len(hits) != 1:
            ck.decide(label + f'pair ({i},{j}) is checked exactly once when not exempt ({len(hits)} tasks)', eng, ctx + [allowed], z3.BoolVal(len(hits) != 1), pc, nomodel_case=case()); continue
        g, t = hits[0]
        # (a task for an exempt pair is harmless: the per-pair verdict answers 'no' for r <= NEVER_COLLIDES, see check_verdict)
        ck.decide(label + f'pair ({i},{j}) is checked whenever it is not marked never-colliding (either key order)', eng, ctx, z3.And(allowed, z3.Not(zb(g))), pc, nomodel_case=case())
        flip = int(t.items[0]) != i
        want = ((mj, pj, mi, pi_) if flip else (mi, pi_, mj, pj))
        got = (tok(t.items[4], eng, st), tok(t.items[2], eng, st), tok(t.items[5], eng, st), tok(t.items[3], eng, st))
        ok = got == tuple((w.kind, w.name) for w in want)
        ck.decide(label + f'pair ({i},{j}) uses the meshes and poses of these two bodies', eng, ctx, z3.BoolVal(not ok), pc, nomodel_case=pc)
    extra = [(g, t) for g, t in ents if isz(t.items[0]) or isz(t.items[1]) or frozenset((int(t.items[0]), int(t.items[1]))) not in seen]
    if not skip:
        for g, t in extra:
            ck.decide(label + f'no task outside the relevant pairs (found {t.items[0]},{t.items[1]})', eng, ctx, zb(g), case(), nomodel_case=case())
    for ob in eng.obligations:
        ck.decide(label + f"{ob['kind']} unreachable: {ob['msg'][:40]}", eng, [ob['cond']], z3.BoolVal(True), case(), nomodel_case=case())

def check_verdict(ck):
    """CollisionTask::collides over parry oracles"""
    eng = ck.engine(); rec = {}; install_collections(eng, rec)
    eng.overrides[eng.find('collisions::build_trimesh_from_aabb')] = lambda e, st, fr, f, a: [(st, Opaque('mesh', 'aabbmesh', data=a[0]))]
    # poses are tokens here; a query may also be posed in the frame of one body: identity and a^-1 b become tokens of their own
    def ident(e, st_, fr, f, a, m): return [(st_, pose('identity'))]
    def inv_mul(e, st_, fr, f, a, m):
        x, y = e.deref(st_, a[0]), e.deref(st_, a[1])
        if isinstance(x, Opaque) and isinstance(y, Opaque) and x.kind == y.kind == 'pose': return [(st_, pose(f'rel({x.name},{y.name})'))]
        return NotImplemented
    eng.model(r'isometry_construction::<impl .*Isometry<f32.*>::identity$', ident, front=True)
    eng.model(r'Isometry<f32.*>::inv_mul$|Isometry::<f32.*>::inv_mul$', inv_mul, front=True)
    table = MapOracle('tbl'); st = eng.new_state()
    safety = Agg([F(z3.Real('to_env')), F(z3.Real('to_robot')), table, Enum(1, [], 'CheckMode')], 'collisions::SafetyDistances')
    for (i, j) in ((2, 5), (5, 2), (3, ENV + 1), (J_TOOL, J_BASE)):
        s0 = st.clone()
        task = Agg([i, j, eng.tmp_ref(s0, 0, pose('pi')), eng.tmp_ref(s0, 0, pose('pj')), eng.tmp_ref(s0, 0, mesh('mi')), eng.tmp_ref(s0, 0, mesh('mj'))], 'collisions::CollisionTask')
        n0 = len(rec['parry'])
        res = eng.call_body(s0, eng.bodies[eng.find('::collides', 'collisions::<impl at')] if False else eng.bodies[[n for n in eng.bodies if n.startswith('collisions::<impl at') and n.endswith('::collides') and eng.bodies[n].nargs == 2 and 'CollisionTask' in eng.bodies[n].local_ty.get(1, '')][0]], [eng.tmp_ref(s0, 0, task), eng.tmp_ref(s0, 0, safety)])
        if len(res) != 1: raise Inconclusive(f'CollisionTask::collides left {len(res)} states')
        s1, out = res[0]; ck.states += 1
        calls = rec['parry'][n0:]
        r = spec_min_distance(table, i, j)
        # the two bodies at their poses, in either order, or posed in the frame of the first of them (what parry does internally)
        BOTH = (['pi', 'mi', 'pj', 'mj'], ['pj', 'mj', 'pi', 'mi'], ['identity', 'mi', 'rel(pi,pj)', 'mj'], ['identity', 'mj', 'rel(pj,pi)', 'mi'])
        direct = [c for c in calls if c['q'] == 'intersection_test' and [getattr(x, 'name', None) for x in c['args']] in BOTH]
        dist = [c for c in calls if c['q'] == 'distance' and [getattr(x, 'name', None) for x in c['args']] in BOTH]
        pre = [c for c in calls if c['q'] == 'intersection_test' and any(getattr(x, 'name', None) == 'aabbmesh' for x in c['args'])]
        label = f'CollisionTask({i},{j})::collides: '
        case = lambda m=None: dict(clause='verdict', pair=[i, j])
        ok = bool(direct) and bool(dist) and bool(pre)
        ck.decide(label + 'uses an intersection test of the two bodies, their distance, and the loosened-box pre-filter', eng, [], z3.BoolVal(not ok), case, nomodel_case=case)
        if not ok: continue
        # the pre-filter must place the loosened box with the pose of the body it was built from and the other mesh with its own pose
        # (or both in the frame of the box's body); only then does the geometric assumption below say anything about it
        owner = {'mi': 'pi', 'mj': 'pj'}
        def conds(x, acc):
            d = getattr(x, 'data', None)
            if isinstance(d, tuple) and d and d[0] == 'ite': acc[str(d[1])] = d[1]; conds(d[2], acc); conds(d[3], acc)
            elif isinstance(d, tuple) and d and d[0] in ('of', 'loosened'): conds(d[-1], acc)
            elif isinstance(d, Opaque): conds(d, acc)
            return acc
        def pick(x, asg):
            d = getattr(x, 'data', None)
            if isinstance(d, tuple) and d and d[0] == 'ite': return pick(d[2] if asg[str(d[1])] else d[3], asg)
            return x
        def box_owner(x, asg):
            x = pick(x, asg); d = getattr(x, 'data', None)
            if isinstance(x, Opaque) and x.kind == 'mesh' and x.name == 'aabbmesh' and isinstance(d, Opaque): return box_owner(d, asg)
            if isinstance(x, Opaque) and x.kind == 'aabb' and isinstance(d, tuple) and d[0] in ('of', 'loosened'): return box_owner(d[-1], asg)
            return x if isinstance(x, Opaque) and x.kind == 'mesh' and x.name in owner else None
        def well_placed(c):
            a = c['args']
            if len(a) != 4 or not all(isinstance(x, Opaque) for x in a): return False
            cs = {}
            for x in a: conds(x, cs)
            if len(cs) > 4: return False
            keys = sorted(cs)
            for bits in range(1 << len(keys)):
                asg = {k: bool(bits >> n & 1) for n, k in enumerate(keys)}
                b = [pick(x, asg) for x in a]
                if b[1].name == 'aabbmesh': pb, box, po, other = b
                elif b[3].name == 'aabbmesh': po, other, pb, box = b
                else: return False
                bx = box_owner(box, asg)
                if bx is None or not (other.kind == 'mesh' and other.name in owner and other.name != bx.name): return False
                if (pb.name, po.name) not in ((owner[bx.name], owner[other.name]), ('identity', f'rel({owner[bx.name]},{owner[other.name]})')): return False
            return True
        good = [p for p in pre if well_placed(p)]
        ck.decide(label + 'the loosened box is placed with the pose of the body it encloses, the other mesh with its own', eng, [], z3.BoolVal(len(good) != len(pre)), case, nomodel_case=case)
        # geometric assumption (outside the claim): bodies within r of each other are met by the box of the smaller one loosened by r
        assume = [z3.Implies(d['res'] <= r, p['res']) for d in dist for p in good]
        spec = z3.If(r <= NEVER, False, z3.If(r == 0, direct[0]['res'], dist[0]['res'] <= r))
        hit = zb(out.disc == 1) if isz(out.disc) else z3.BoolVal(out.disc == 1)
        ck.decide(label + 'reported <=> (touch-only: intersect; r>0: distance <= r; never-collides: no)', eng, list(s1.pc) + assume, hit != spec, case, nomodel_case=case)
        pair = out.items[0]
        ck.decide(label + 'reported as (min index, max index)', eng, list(s1.pc) + [hit], z3.Or(zi(pair.items[0]) != min(i, j), zi(pair.items[1]) != max(i, j)), case, nomodel_case=case)

def check_modes(ck):
    """process_collision_tasks with CollisionTask::collides as a per-task oracle: mode semantics for every choice rayon may make"""
    for mode, ovr in ((0, None), (1, None), (2, None), (1, 0), (2, 0), (0, 2)):
        eng = ck.engine(); rec = {}; install_collections(eng, rec)
        hitflags = [z3.Bool(f'hit{k}') for k in range(3)]
        def collides(e, st_, fr, f, a):
            t = e.deref(st_, a[0]); k = int(t.items[0])
            return [(st_, Enum(z3.If(hitflags[k], 1, 0), [Agg([k, k + 10])], 'Option'))]
        cname = [n for n in eng.bodies if n.startswith('collisions::<impl at') and n.endswith('::collides') and eng.bodies[n].nargs == 2 and 'CollisionTask' in eng.bodies[n].local_ty.get(1, '')][0]
        eng.overrides[cname] = collides
        st = eng.new_state()
        tasks = VecV.dense([Agg([k, k + 10, None, None, None, None], 'collisions::CollisionTask') for k in range(3)])
        safety = Agg([fconst(0), fconst(0), MapOracle('tbl'), Enum(mode, [], 'CheckMode')], 'collisions::SafetyDistances')
        ov = NONE() if ovr is None else Some(Enum(ovr, [], 'CheckMode'))
        res = eng.call_body(st, eng.bodies[cfn(eng, 'process_collision_tasks')], [tasks, eng.tmp_ref(st, 0, safety), eng.tmp_ref(st, 0, ov)])
        eff = mode if ovr is None else ovr
        label = f'process_collision_tasks[mode={mode},override={ovr}]: '
        case = lambda m=None: dict(clause='modes', mode=mode, override=-1 if ovr is None else ovr)
        for s1, out in res:
            ck.states += 1
            ents = list(out.ents) if isinstance(out, VecV) else None
            if ents is None: ck.decide(label + 'returns a list', eng, [], z3.BoolVal(True), case, nomodel_case=case); continue
            ctx = list(s1.pc)
            present = lambda k: z3.Or([z3.And(zb(g), zi(v.items[0]) == k) for g, v in ents]) if ents else z3.BoolVal(False)
            count = z3.Sum([z3.If(zb(g), 1, 0) for g, v in ents]) if ents else z3.IntVal(0)
            if eff == 2: ck.decide(label + 'no-check mode reports nothing', eng, ctx, z3.Or([zb(g) for g, _ in ents]) if ents else z3.BoolVal(False), case, nomodel_case=case)
            elif eff == 1:
                for k in range(3): ck.decide(label + f'all-collisions mode reports task {k} <=> it collides', eng, ctx, present(k) != hitflags[k], case, nomodel_case=case)
                ck.decide(label + 'all-collisions mode reports every hit once', eng, ctx, count != z3.Sum([z3.If(h, 1, 0) for h in hitflags]), case, nomodel_case=case)
            else:
                ck.decide(label + 'first-collision mode reports only real hits', eng, ctx, z3.Or([z3.And(present(k), z3.Not(hitflags[k])) for k in range(3)]), case, nomodel_case=case)
                ck.decide(label + 'first-collision mode reports something <=> some task collides', eng, ctx, (count >= 1) != z3.Or(hitflags), case, nomodel_case=case)
                ck.decide(label + 'first-collision mode reports at most one pair', eng, ctx, count > 1, case, nomodel_case=case)

def check_entry_points(ck):
    """collides / collision_details / near: poses from forward_with_joint_poses of the given robot, right table, right mode"""
    for name in ('collides', 'collision_details', 'near', 'near/body-without-checks'):
        nocheck_body = name.endswith('body-without-checks'); name = name.split('/')[0]
        for mode in ((1, 2) if name == 'collides' else ((2,) if nocheck_body else (1,))):
            eng = ck.engine(unwind=10); install_collections(eng); install_dynkin(eng)
            st = eng.new_state(); table = MapOracle('tbl'); given = MapOracle('given')
            body = make_body(eng, True, True, 1, table, mode=mode)
            captured = []
            def capture(e, st_, fr, f, a): captured.append((st_, [e.deref(st_, x) if isinstance(x, RefV) else x for x in a])); return [(st_, VecV([(z3.Bool('somehit'), Agg([1, 3]))]))]
            eng.overrides[cfn(eng, 'detect_collisions_with_skips')] = capture
            inner = DynKin('robot'); qs = Agg([F(z3.Real(f'q{i}')) for i in range(6)])
            robref = eng.tmp_ref(st, 0, inner)
            args = [eng.tmp_ref(st, 0, body), eng.tmp_ref(st, 0, qs), robref]
            gs = Agg([fconst(0), fconst(0), given, Enum(1, [], 'CheckMode')], 'collisions::SafetyDistances')
            if name == 'near': args.append(eng.tmp_ref(st, 0, gs))
            fname = [n for n in eng.bodies if n.startswith('collisions::<impl at') and n.endswith('::' + name) and eng.bodies[n].nargs == len(args) and 'RobotBody' in eng.bodies[n].local_ty.get(1, '')]
            if len(fname) != 1: raise Inconclusive(f'RobotBody::{name}: {len(fname)} candidates')
            res = eng.call_body(st, eng.bodies[fname[0]], args); ck.states += len(res)
            label = f'RobotBody::{name}[mode of the body={mode}{", mode of the table passed=1" if name == "near" else ""}]: '
            case = lambda m=None: dict(clause='entry', method=name, mode=mode)
            if name == 'collides' and mode == 2:
                ok = all((not isz(o)) and o is False for _, o in res) and not captured
                ck.decide(label + 'no-check mode: never colliding, nothing computed', eng, [], z3.BoolVal(not ok), case, nomodel_case=case); continue
            fw = [r for r in eng.kin_calls if r['method'] == 'forward_with_joint_poses']
            ok = len(captured) == 1 and len(fw) == 1 and same(fw[0]['args'][0], qs)
            ck.decide(label + 'one forward_with_joint_poses(qs) of the given robot, one pass over the task list', eng, [], z3.BoolVal(not ok), case, nomodel_case=case)
            if not ok: continue
            cst, cargs = captured[0]
            ok = same(cargs[1], fw[0]['result'])
            ck.decide(label + 'bodies are placed at the link poses the robot reported', eng, [], z3.BoolVal(not ok), case, nomodel_case=case)
            want_tbl = 'given' if name == 'near' else 'tbl'
            ok = isinstance(cargs[2], Agg) and getattr(cargs[2].items[2], 'name', None) == want_tbl
            ck.decide(label + f"safety distances used are {'the ones passed to near()' if name == 'near' else 'those of the body'}", eng, [], z3.BoolVal(not ok), case, nomodel_case=case)
            ok = isinstance(cargs[4], SetV) and not cargs[4].data
            ck.decide(label + 'nothing is skipped', eng, [], z3.BoolVal(not ok), case, nomodel_case=case)
            if name == 'collides':
                ok = isinstance(cargs[3], Enum) and cargs[3].disc == 1 and cargs[3].items[0].disc == 0
                ck.decide(label + 'first-collision mode is sufficient for a yes/no answer', eng, [], z3.BoolVal(not ok), case, nomodel_case=case)
                for s1, o in res: ck.decide(label + 'colliding <=> the list of hits is not empty', eng, list(s1.pc), zb(o) != z3.Bool('somehit'), case, nomodel_case=case)
            else:
                for s1, o in res:
                    okl = isinstance(o, VecV) and len(o.ents) == 1 and same(zb(o.ents[0][0]), z3.Bool('somehit')) and [int(x) for x in o.ents[0][1].items] == [1, 3]
                    ck.decide(label + 'the list of hits is returned unchanged (as usize pairs)', eng, list(s1.pc), z3.BoolVal(not okl), case, nomodel_case=case)

def run(ck):
    ck.bounds = dict(environment='0..2 objects (the enumeration code is uniform in the index)', table='arbitrary: symbolic presence and value for every key', tool_base='present/absent (all four combinations)')
    ck.assumptions += ['parry3d intersection_test / distance are oracles (any answer, consistent per call)', 'GEOMETRIC ASSUMPTION: distance(i,j) <= r implies the r-loosened bounding box of the smaller mesh intersects the other mesh (pre-filter soundness; false for a body entirely inside the box)',
                       'rayon find_map_any returns any hit, filter_map/collect all hits (contract, not implementation)', 'HashMap as an uninterpreted partial map']
    q = ck.tier == 'quick'
    for tool in (True, False):
        for base in (True, False):
            for nenv in ((1,) if q and not (tool and base) else (0, 1, 2) if not q else (0, 2)):
                check_task_list(ck, tool, base, nenv)
    check_task_list(ck, True, True, 1, own_table=False)
    check_verdict(ck)
    check_modes(ck)
    check_entry_points(ck)

if __name__ == '__main__':
    main(run, 'C10')
