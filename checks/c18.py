"""C18 — random joint vectors drawn from constraints always satisfy them.

Encoded (real MIR): Constraints::new, random_angles + nested random_angle, compliant.
Oracle for the generator: gen_range(lo..hi) returns ANY u in [lo,hi) and panics iff the range is
empty - so the obligation covers every outcome of the thread-local RNG, not a sample of draws.
Bounds: from,to in [-2pi,2pi].
"""
import z3
from .common import *
from .c07 import arc_spec, TWO_PI
from mirsmt.oracles import install_rng

def run(ck):
    ck.bounds = dict(limit_range='from,to in [-2pi,2pi] on the symbolic joint, others fixed to (0,1)', rng='every value gen_range may return')
    ck.assumptions += ['real arithmetic', 'gen_range(lo..hi) contract: lo <= u < hi, panics iff !(lo < hi)', 'C07 (compliant <=> arc membership) is what "accepted" means; both the spec and the real compliant() are asserted']
    roles = {'wrap-second-segment': lambda c: c['from'][c['joint']] > c['to'][c['joint']],
             'from==to': lambda c: c['from'][c['joint']] == c['to'][c['joint']]}
    joints = range(6)
    for j in joints:
        eng = ck.engine(unwind=5, pi_rational=True); install_rng(eng)
        a, b = z3.Real('from'), z3.Real('to')
        rng = [a >= -TWO_PI, a <= TWO_PI, b >= -TWO_PI, b <= TWO_PI]
        st = eng.new_state(); st.pc += tuple(rng)
        A = [F(a) if i == j else fconst(0) for i in range(6)]; B = [F(b) if i == j else fconst(1) for i in range(6)]
        res = eng.call_body(st, eng.bodies[eng.find('::new', 'constraints::')], [Agg(A), Agg(B), fconst(0)])
        st, cons = res[0]
        rc = eng.tmp_ref(st, 0, cons)
        res = eng.call_body(st, eng.bodies[eng.find('::random_angles', 'constraints::')], [rc])
        if len(res) != 1: raise Inconclusive(f'random_angles left {len(res)} states')
        st, out = res[0]; ck.states += 1
        x = out.items[j]
        res = eng.call_body(st, eng.bodies[eng.find('::compliant', 'constraints::')], [rc, eng.tmp_ref(st, 0, out)])
        st, comp = res[0]
        label = f'joint {j}: '
        def case(m):
            c = dict(joint=j); c['from'] = [model_float(m, a) if i == j else 0.0 for i in range(6)]; c['to'] = [model_float(m, b) if i == j else 1.0 for i in range(6)]
            c['draws'] = [model_float(m, u) for u, _, _ in eng.rng_draws]; c['angle'] = model_float(m, x.v); return c
        ck.witness(label + 'sampler returns', eng, st.pcz())
        # width of the arc (C07 reading) is positive  <=>  not (from > to and from - to is a whole number of turns)
        defs, acc = arc_spec(a, b, x.v, 'j')
        posw = z3.Or(a <= b, z3.Real('w_j') > 0)
        excl = {'wrap-second-segment': z3.Not(a > b), 'from==to': a != b}
        for ob in eng.obligations:
            ck.decide(label + f"no panic for arcs of positive width: {ob['msg'][:40]}", eng, [*rng, *defs[:2], posw], ob['cond'], lambda m: dict(case(m), panic='true'),
                      what='sampler panics on an arc of positive width', roles=roles, role_excl=excl, vary=[a, b])
        for what, goal in (('sampled angle lies on the arc (oracle)', z3.Not(acc)), ('sampled vector accepted by compliant()', z3.Not(zb(comp))), ('sampled angle is finite', zb(x.poison()))):
            ck.decide(label + what, eng, [st.pcz(), *defs], goal, case, roles=roles, role_excl=excl, vary=[a, b])

if __name__ == '__main__':
    main(run, 'C18')
