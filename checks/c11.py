"""C11 — collision-aware IK returns exactly the non-colliding solutions, in order.

Encoded (real MIR): KinematicsWithShape::{new, with_safety, create_robot_with_base_and_tool, remove_collisions, positioned_robot, collides,
collision_details, near, non_colliding_offsets} and its 8 Kinematics methods. The kinematic stack is an oracle robot (3 answers per inverse call),
RobotBody::collides an oracle verdict per (joint vector, robot) - what it answers is C10.
Obligations: each inverse entry point = the stack's answer list filtered by "not colliding" with order preserved (guard of entry k is exactly the
negated verdict for answer k, judged against the SAME stack); the other methods are pure delegation; both constructors build Tool{Base{OPW + limits}} with
the given transforms, base mesh placed by the base transform, tool mesh, environment and safety settings; positioned_robot places link meshes at the stack's link poses, the tool at link 6.
"""
import z3
from .common import *
from .c09 import method_body, free_pose, INVERSES
from .c10 import mesh, pose, cfn
from mirsmt.oracles import install_collections, install_dynkin, DynKin, MapOracle

def kws_fn(eng, name):
    c = [n for n in eng.bodies if n.startswith('kinematics_with_shape::<impl at') and n.endswith('::' + name) and 'Kinematics' not in n.split('::')[-2]]
    c = [n for n in c if not any(isinstance(k, tuple) and v == n for k, v in eng.alias.items())] or c
    if len(c) != 1: raise Inconclusive(f'KinematicsWithShape::{name}: {len(c)} candidates')
    return eng.bodies[c[0]]

def robot_body(st=None):
    # the safety settings are structured with a SYMBOLIC check mode: which answers are returned must not depend on it (it only governs how many pairs a verdict lists)
    mode = z3.Int('body_check_mode')
    if st is not None: st.assume(z3.And(mode >= 0, mode <= 2))
    safety = Agg([F(z3.Real('body_to_env')), F(z3.Real('body_to_robot')), Opaque('bodypart', 'special_distances'), Enum(mode, [], 'CheckMode')], 'collisions::SafetyDistances')
    return Agg([Opaque('bodypart', 'joint_meshes'), Opaque('bodypart', 'tool'), Opaque('bodypart', 'base'), Opaque('bodypart', 'environment'), safety], 'collisions::RobotBody')

def run(ck):
    ck.bounds = dict(stack='arbitrary robot (oracle), 3 answers per inverse call', verdicts='arbitrary per answer (oracle)')
    ck.assumptions += ['what collides() answers is C10; what the stack answers is C01-C09']
    for meth in list(INVERSES) + ['forward', 'forward_with_joint_poses', 'kinematic_singularity', 'constraints'] + [m_ + '#sentinel' for m_ in INVERSES if INVERSES[m_] and INVERSES[m_][0] == 'previous']:
        # '#sentinel': the previous position is the CONSTRAINT_CENTERED marker (all NaN): it must reach the stack as it is
        sentinel = meth.endswith('#sentinel'); meth = meth.split('#')[0]
        eng = ck.engine(unwind=6); install_collections(eng); install_dynkin(eng)
        st = eng.new_state()
        cell = eng.tmp_ref(st, 0, Opaque('limits-of-stack')); stack = DynKin('stack', nsol=3, cons_ref=cell)
        verdicts = []
        def collides(e, st_, fr, f, a):
            b = z3.Bool(f'collides{len(verdicts)}'); verdicts.append(dict(qs=e.deref(st_, a[1]), robot=e.deref(st_, a[2]), res=b)); return [(st_, b)]
        cn = [n for n in eng.bodies if n.startswith('collisions::<impl at') and n.endswith('::collides') and eng.bodies[n].nargs == 3]
        if len(cn) != 1: raise Inconclusive('RobotBody::collides not found')
        eng.overrides[cn[0]] = collides
        w = Agg([BoxV([stack]), robot_body(st)], 'kinematics_with_shape::KinematicsWithShape'); rw = eng.tmp_ref(st, 0, w)
        tcp = free_pose('tcp'); joints = Agg([F(z3.Real(f'q{i}')) for i in range(6)]); prev = Agg([F_NAN()] + [fconst(0)] * 5) if sentinel else Agg([F(z3.Real(f'prev{i}')) for i in range(6)]); j6 = F(z3.Real('j6arg'))
        if meth in ('forward', 'forward_with_joint_poses', 'kinematic_singularity'): args = [rw, eng.tmp_ref(st, 0, joints)]
        elif meth == 'constraints': args = [rw]
        elif meth == 'inverse': args = [rw, eng.tmp_ref(st, 0, tcp)]
        elif meth == 'inverse_5dof': args = [rw, eng.tmp_ref(st, 0, tcp), j6]
        else: args = [rw, eng.tmp_ref(st, 0, tcp), eng.tmp_ref(st, 0, prev)]
        res = eng.call_body(st, method_body(eng, 'KinematicsWithShape', meth), args)
        label = f"KinematicsWithShape::{meth}{' [previous = CONSTRAINT_CENTERED]' if sentinel else ''}: "
        case = lambda m=None: dict(clause='entry', method=meth)
        if len(res) != 1:
            ck.decide(label + f'single result state ({len(res)})', eng, [], z3.BoolVal(True), case, nomodel_case=case); continue
        st, out = res[0]; ck.states += 1
        calls = [r for g, r in st.log if r['obj'] == 'stack']
        ok = all(g is True for g, _ in st.log) and len(calls) == 1 and calls[0]['method'] == meth
        ck.decide(label + f'exactly one call to the stack, to {meth}', eng, [], z3.BoolVal(not ok), case, nomodel_case=case)
        if not calls: continue
        call = calls[0]
        if meth in INVERSES:
            okargs = same(call['args'][0], tcp) and (not INVERSES[meth] or same(call['args'][1], prev if INVERSES[meth][0] == 'previous' else j6))
            ck.decide(label + 'pose / j6 / previous passed unchanged', eng, [], z3.BoolVal(not okargs), case, nomodel_case=case)
            inner = call['result'].items
            ents = list(out.ents) if isinstance(out, VecV) else []
            ck.decide(label + 'one entry per answer of the stack, same order', eng, [], z3.BoolVal(len(ents) != len(inner) or not all(same(v, x) for (g, v), x in zip(ents, inner))), case, nomodel_case=case)
            for k, x in enumerate(inner):
                vk = [v for v in verdicts if same(v['qs'], x)]
                okv = len(vk) == 1 and isinstance(vk[0]['robot'], DynKin) and vk[0]['robot'].name == 'stack'
                ck.decide(label + f'answer {k} is judged once, against the same kinematic stack', eng, [], z3.BoolVal(not okv), case, nomodel_case=case)
                if okv and k < len(ents): ck.decide(label + f'answer {k} is returned <=> it is not reported colliding', eng, list(st.pc), zb(ents[k][0]) != z3.Not(vk[0]['res']), case, nomodel_case=case)
        else:
            ck.decide(label + 'answer of the stack returned unchanged, joints passed unchanged', eng, [], z3.BoolVal(not (same(out, call['result']) and (meth == 'constraints' or same(call['args'][0], joints)))), case, nomodel_case=case)
    # body-level delegations
    for name, nargs in (('collides', 2), ('collision_details', 2), ('near', 3), ('non_colliding_offsets', 4)):
        eng = ck.engine(); install_collections(eng); install_dynkin(eng); st = eng.new_state()
        stack = DynKin('stack'); seen = []
        def deleg(e, st_, fr, f, a, nm=name): seen.append((nm, [e.deref(st_, x) if isinstance(x, RefV) else x for x in a])); return [(st_, Opaque('answer', nm))]
        for nm2 in ('collides', 'collision_details', 'near', 'non_colliding_offsets'):
            cn = [n for n in eng.bodies if n.startswith('collisions::<impl at') and n.endswith('::' + nm2) and 'RobotBody' in eng.bodies[n].local_ty.get(1, '')]
            if len(cn) != 1: raise Inconclusive(f'RobotBody::{nm2} not found')
            eng.overrides[cn[0]] = (lambda nm2: lambda e, st_, fr, f, a: deleg(e, st_, fr, f, a, nm2))(nm2)
        body = robot_body()
        w = Agg([BoxV([stack]), body], 'kinematics_with_shape::KinematicsWithShape')
        extra = [eng.tmp_ref(st, 0, Opaque('arg', f'a{k}')) for k in range(nargs - 1)]
        res = eng.call_body(st, kws_fn(eng, name), [eng.tmp_ref(st, 0, w)] + extra)
        ok = len(res) == 1 and len(seen) == 1 and isinstance(res[0][1], Opaque) and res[0][1].kind == 'answer' and any(isinstance(x, DynKin) for x in seen[0][1]) \
             and [x.name for x in seen[0][1] if isinstance(x, Opaque) and x.kind == 'arg'] == [f'a{k}' for k in range(nargs - 1)] and same(seen[0][1][0], body) \
             and (seen[0][0] == name or (name == 'collision_details' and seen[0][0] == 'near' and same(seen[0][1][-1], body.items[4])))      # collision_details == near with the body's own safety distances
        ck.decide(f'KinematicsWithShape::{name} = body.{name}(same arguments, the same kinematic stack)', eng, [], z3.BoolVal(not ok), lambda m=None: dict(clause='delegation', method=name)); ck.states += 1
    # constructors
    for ctor in ('new', 'with_safety'):
        eng = ck.engine(); install_collections(eng); st = eng.new_state()
        params = Opaque('params'); cons = Opaque('constraints'); bt = free_pose('baseT'); tt = free_pose('toolT')
        meshes = Agg([mesh(f'link{i}') for i in range(6)]); env = VecV.dense([Opaque('envobj')])
        last = True if ctor == 'new' else Agg([fconst(0), fconst(0), MapOracle('tbl'), Enum(1, [], 'CheckMode')], 'collisions::SafetyDistances')
        res = eng.call_body(st, kws_fn(eng, ctor), [params, cons, meshes, mesh('base'), bt, mesh('tool'), tt, env, last])
        case = lambda m=None: dict(clause='constructor', ctor=ctor)
        ok = False
        try:
            s1, o = res[0]
            tool = o.items[0].items[0]; base = tool.items[0].items[0]; opw = base.items[0].items[0]
            body = o.items[1]
            ok = (len(res) == 1 and tool.tag.endswith('Tool') and same(tool.items[1], tt) and base.tag.endswith('Base') and same(base.items[1], bt)
                  and opw.items[0] is params and isinstance(opw.items[1], Enum) and opw.items[1].disc == 1 and opw.items[1].items[0] is cons
                  and same(body.items[0], meshes) and body.items[1].disc == 1 and same(body.items[1].items[0], mesh('tool'))
                  and body.items[2].disc == 1 and same(body.items[2].items[0].items[0], mesh('base')) and same(body.items[2].items[0].items[1], bt)
                  and same(body.items[3], env))
            if ctor == 'with_safety': ok = ok and body.items[4] is last
            else:
                sf = body.items[4]
                ok = ok and not isz(sf.items[3].disc) and sf.items[3].disc == 0 and same(sf.items[0], fconst(0)) and same(sf.items[1], fconst(0))
        except Exception as e:
            ck.notes.append(f'constructor {ctor}: structure walk failed: {e!r}')
        ck.decide(f'KinematicsWithShape::{ctor} builds Tool{{Base{{OPW + limits}}}} with the given transforms, meshes, environment and safety', eng, [], z3.BoolVal(not ok), case); ck.states += 1
    # positioned_robot
    eng = ck.engine(); install_collections(eng); install_dynkin(eng); st = eng.new_state()
    stack = DynKin('stack'); joints = Agg([F(z3.Real(f'q{i}')) for i in range(6)])
    body = Agg([Agg([mesh(f'link{i}') for i in range(6)]), Some(mesh('tool')), NONE(), VecV.dense([Opaque('envobj')]), Opaque('safety')], 'collisions::RobotBody')
    w = Agg([BoxV([stack]), body], 'kinematics_with_shape::KinematicsWithShape')
    res = eng.call_body(st, kws_fn(eng, 'positioned_robot'), [eng.tmp_ref(st, 0, w), eng.tmp_ref(st, 0, joints)])
    case = lambda m=None: dict(clause='positioned_robot')
    ok = False
    try:
        s1, o = res[0]; fw = [r for r in eng.kin_calls if r['method'] == 'forward_with_joint_poses']
        pj = o.items[0].items
        ok = len(res) == 1 and len(fw) == 1 and same(fw[0]['args'][0], joints) and len(pj) == 6 and all(same(eng.deref(s1, pj[i].items[0]), mesh(f'link{i}')) and same(pj[i].items[1], fw[0]['result'].items[i]) for i in range(6)) \
             and o.items[1].disc == 1 and same(eng.deref(s1, o.items[1].items[0].items[0]), mesh('tool')) and same(o.items[1].items[0].items[1], fw[0]['result'].items[5]) and len(o.items[2].items) == 1
    except Exception as e:
        ck.notes.append(f'positioned_robot: structure walk failed: {e!r}')
    ck.decide('positioned_robot: link meshes at the link poses of the stack, the tool at link 6, the environment listed', eng, [], z3.BoolVal(not ok), case); ck.states += 1

if __name__ == '__main__':
    main(run, 'C11')
