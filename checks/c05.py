"""C05 — wrist singularity detected geometrically; J4/J6 do not jump.

(a) Encoded (real MIR): OPWKinematics::kinematic_singularity + is_close_to_multiple_of_pi.
    Oracle: axes of joints 4 and 6 collinear <=> sin(q5) = 0, q5 = J5*sign5 - offset5 (from the C03 chain);
    reported <=> distance of q5 to the nearest multiple of pi < 0.01 deg (LRA + one integer).
    Bounds: |J5| <= 4pi, |offset5| <= 2pi, sign5 in {+1,-1}.
(b) singular candidate of inverse_continuing: see checks/c04.py (shares the continuation harness).
"""
import z3
from .common import *
from .robot import *

THR = RV('1/100') * PI / 180

def run(ck):
    ck.bounds = dict(J5='[-4pi,4pi]', offset5='[-2pi,2pi]', sign5='{+1,-1}', other_joints='arbitrary reals')
    ck.assumptions += ['real arithmetic', 'collinearity of joint axes 4 and 6 <=> q5 multiple of pi (proved for the link chain in C03: z6 = R4*Ry(q5)*z)']
    if False: pass
    roles = {'J5-offset-or-sign-ignored': lambda c: c['off'][4] != 0.0 or c['sign'][4] != 1.0,
             'negative-side-of-band': lambda c: True}
    for sg in (1, -1):
        eng = ck.engine(unwind=4, pi_rational=True)
        j = [z3.Real(f'j{i}') for i in range(6)]; off5 = z3.Real('off5')
        params, pv, off, sign = make_params(P={n: RV(v) for n, v in zip(PNAMES, ('0.15', '-0.11', '0.05', '0.55', '0.61', '0.66', '0.12'))},
                                            off=[RV(0)] * 4 + [off5, RV(0)], sign=[1, 1, 1, 1, sg, 1])
        robot = make_robot(params)
        st = eng.new_state()
        rng = [j[4] >= -4 * PI, j[4] <= 4 * PI, off5 >= -2 * PI, off5 <= 2 * PI]
        st.pc += tuple(rng)
        rr = eng.tmp_ref(st, 0, robot); rj = eng.tmp_ref(st, 0, Agg([F(x) for x in j]))
        res = eng.call_body(st, opw_fn(eng, 'kinematic_singularity'), [rr, rj])
        if len(res) != 1: raise Inconclusive(f'kinematic_singularity left {len(res)} states')
        st, out = res[0]; ck.states += 1
        reported = _deq_some(out)
        q5 = j[4] * sg - off5
        k = z3.Int('kpi'); d = z3.Real('d')
        defs = [d == q5 - z3.ToReal(k) * PI, d > -PI / 2, d <= PI / 2]
        inband = z3.And(d < THR, -d < THR)
        label = f'sign5={sg}: '
        def case(m):
            return dict(joints=[model_float(m, x) for x in j], off=[0.0] * 4 + [model_float(m, off5), 0.0], sign=[1.0] * 4 + [float(sg), 1.0])
        ck.witness(label + 'reported reachable', eng, st.pcz(), reported)
        ck.witness(label + 'not reported reachable', eng, st.pcz(), z3.Not(reported))
        for ob, m in ck.engine_obligations(eng, *rng, label=label): ck.report('panic in kinematic_singularity', case(m))
        excl = {'J5-offset-or-sign-ignored': z3.And(off5 == 0, z3.BoolVal(sg == 1))}
        for what, goal in (('inside the band => reported', z3.And(inband, z3.Not(reported))), ('outside the band => not reported', z3.And(z3.Not(inband), z3.Or(d > THR, -d > THR), reported))):
            ck.decide(label + what, eng, [st.pcz(), *defs], goal, case, roles=roles, role_excl=excl, vary=[j[4], off5], delta=1e-5)

def _deq_some(o):
    d = o.disc
    return zb(d == 1) if isz(d) else z3.BoolVal(d == 1)

def run_all(ck):
    run(ck)
    from . import ikentry
    mirdump.load(REPO); ensure_replay()
    jobs = [('checks.ikentry', 'check_pipeline', ('inverse_continuing', dict(n=n, dof=6, cons=c, prev='finite', **({'weight': 0} if c == 'sym' else {})), ('C05',))) for n in ((2,) if ck.tier == 'quick' else (1, 2, 3)) for c in ('none', 'sym')]
    # J4 and J6 reversed together / separately: the recovered answer redistributes their common rotation counted in the same direction
    jobs += [('checks.ikentry', 'check_pipeline', ('inverse_continuing', dict(n=2, dof=6, cons='none', prev='finite', sign46=s46), ('C05',))) for s46 in ((-1, -1),)]      # different J4/J6 signs: the solver does not finish these (3 s budget per query); covered by the native turned-tool battery only
    ck.parallel(jobs)

if __name__ == '__main__':
    main(run_all, 'C05')
