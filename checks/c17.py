"""C17 — a frame from three point pairs is the rigid motion mapping them.

Encoded (real MIR): Frame::frame, Frame::translation, Frame::forward_transformed, is_valid_isometry, distances_match.
Parametrisation (onto): source triple p1, p2 = p1 + l*B e1, p3 = p1 + B(u e1 + w e2) with B in SO(3) (Euler Rz Ry Rz), l > 0, w > 0 — every
non-collinear triple arises this way; images q_i = M p_i for an arbitrary rigid motion M (Euler + free translation).
Norms are brought to normal form modulo the unit-circle relations before the square root is taken, so |v1| = l and |v1 x v2| = l*w are
recognised exactly and the executed path is the Ok path; the 12 components of the result are then compared with M as polynomial identities.
Error clauses: exactly collinear source (resp. target) => Err(ColinearPoints{source: true|false}); a pair distance differing by >= 5 mm => Err(NotIsometry).
"""
import z3
from .common import *
from mirsmt import poly
from mirsmt.oracles import euler_iso, install_dynkin, DynKin
from mirsmt.models_na import Mat, Iso

def frame_fn(eng, name):
    c = [n for n in eng.bodies if n.startswith('frame::<impl at') and n.endswith('::' + name) and 'Kinematics' not in n]
    c = [n for n in c if eng.bodies[n].nargs == {'frame': 6, 'translation': 2, 'forward_transformed': 3}[name]]
    if len(c) != 1: raise Inconclusive(f'Frame::{name}: {len(c)} candidates')
    return eng.bodies[c[0]]

def pt(vs): return Mat(3, 1, [F(v) for v in vs])

def install_hooks(eng, ring_box, positive):
    roots = {}
    def sqrt_hook(x):
        try: p = poly.from_z3(ring_box[0], x)
        except poly.NotPolynomial: return None
        r = poly.sqrt_monomial(p, positive)
        if r is not None: return r.to_z3()
        # not a perfect square: one root symbol per NORMAL FORM of the radicand, so that equal lengths are the same term
        key = repr(sorted(p.t.items()))
        if key not in roots:
            rv = fresh('nsqrt'); roots[key] = rv
            eng.side += [rv >= 0, z3.Implies(p.to_z3() >= 0, rv * rv == p.to_z3())]; eng.side_lin.append(rv >= 0)
        return roots[key]
    def div_hook(x, n):
        try: px, pn = poly.from_z3(ring_box[0], x), poly.from_z3(ring_box[0], n)
        except poly.NotPolynomial: return None
        r = poly.div_monomial(px, pn)
        return None if r is None else r.to_z3()
    eng.sqrt_hook = sqrt_hook; eng.div_hook = div_hook

def run(ck):
    import math
    ck.bounds = dict(points='all non-collinear triples (parametrised), all rigid motions', errors='exactly collinear triples; distance mismatch >= 5 mm on at least one pair')
    ck.assumptions += ['real arithmetic (near-collinear conditioning is outside the claim)', 'nalgebra modelled mathematically, UnitQuaternion == rotation matrix']
    # ---------------- main clause ----------------
    eng = ck.engine()
    B, prsB, _ = euler_iso(eng, 'B'); M, prsM, tM = euler_iso(eng, 'M')
    l, u, w = z3.Real('len'), z3.Real('u'), z3.Real('w'); p1 = [z3.Real(f'p1_{i}') for i in range(3)]
    ring = poly.Ring()
    for s_, c_ in prsB + prsM: ring.pair(s_, c_)
    install_hooks(eng, [ring], {'len', 'w'})
    st = eng.new_state(); st.assume(z3.And(l > 0, w > 0))
    def col(R, j): return [R.R.at(i, j).v for i in range(3)]
    e1, e2 = col(B, 0), col(B, 1)
    P1 = p1; P2 = [p1[i] + l * e1[i] for i in range(3)]; P3 = [p1[i] + u * e1[i] + w * e2[i] for i in range(3)]
    def apply(Mi, p): return [sum(Mi.R.at(i, k).v * p[k] for k in range(3)) + Mi.t.d[i].v for i in range(3)]
    Q1, Q2, Q3 = apply(M, P1), apply(M, P2), apply(M, P3)
    res = eng.call_body(st, frame_fn(eng, 'frame'), [pt(P1), pt(P2), pt(P3), pt(Q1), pt(Q2), pt(Q3)])
    ck.states += len(res)
    def case(m):
        ang = lambda prs: [math.atan2(model_float(m, s_), model_float(m, c_)) for s_, c_ in prs]
        return dict(eulerB=ang(prsB), eulerM=ang(prsM), shift=[model_float(m, t) for t in tM], p1=[model_float(m, x) for x in p1], l=model_float(m, l), u=model_float(m, u), w=model_float(m, w), clause='main')
    oks = [(s, o) for s, o in res if isinstance(o, Enum) and not isz(o.disc) and o.disc == 0]
    errs = [(s, o) for s, o in res if not (isinstance(o, Enum) and not isz(o.disc) and o.disc == 0)]
    label = 'Frame::frame: '
    for s, o in errs:
        ck.decide(label + 'no error path for images of a non-collinear triple under a rigid motion', eng, list(s.pc), z3.BoolVal(True), case, vary=[l, w], abstract=True)
    if not oks: ck.decide(label + 'an Ok result exists', eng, [], z3.BoolVal(True), case)
    for s, o in oks:
        R_ = o.items[0]
        ck.witness(label + 'Ok path reachable', eng, *s.pc)
        for i in range(3):
            for k in range(3):
                d = poly.from_z3(ring, R_.R.at(i, k).v) - poly.from_z3(ring, M.R.at(i, k).v)
                ck.decide(label + f'rotation[{i}][{k}] == motion [normalised, residual terms={d.nterms()}]', eng, list(s.pc), d.to_z3() != 0, case)
            d = poly.from_z3(ring, R_.t.d[i].v) - poly.from_z3(ring, M.t.d[i].v)
            ck.decide(label + f'translation[{i}] == motion [normalised, residual terms={d.nterms()}]', eng, list(s.pc), d.to_z3() != 0, case)
    # ---------------- collinear source / target ----------------
    for which in ('source', 'target'):
        eng = ck.engine(); ring = poly.Ring(); install_hooks(eng, [ring], set())
        st = eng.new_state()
        d = [z3.Real(f'd{i}') for i in range(3)]; a, b = z3.Real('a'), z3.Real('b'); o1 = [z3.Real(f'o{i}') for i in range(3)]
        L1, L2, L3 = o1, [o1[i] + a * d[i] for i in range(3)], [o1[i] + b * d[i] for i in range(3)]       # three points on one line
        G = [[z3.Real(f'g{k}_{i}') for i in range(3)] for k in range(3)]                                         # three arbitrary points
        args = [pt(L1), pt(L2), pt(L3)] + [pt(g) for g in G] if which == 'source' else [pt(g) for g in G] + [pt(L1), pt(L2), pt(L3)]
        res = eng.call_body(st, frame_fn(eng, 'frame'), args); ck.states += len(res)
        ccase = lambda m: dict(clause='collinear_' + which, line_o=[model_float(m, x) for x in o1], line_d=[model_float(m, x) for x in d], a=model_float(m, a), b=model_float(m, b), other=[model_float(m, x) for g in G for x in g])
        for s, o in res:
            is_ok = isinstance(o, Enum) and not isz(o.disc) and o.disc == 0
            if is_ok:
                ck.decide(f'Frame::frame: collinear {which} points are never accepted', eng, list(s.pc), z3.BoolVal(True), ccase, abstract=True, nomodel_case=(lambda w: lambda m=None: dict(clause='collinear_' + w))(which))
            else:
                err = eng.deref(s, o.items[0]) if o.items else None
                err = err.items[0] if isinstance(err, BoxV) else err
                tag = getattr(err, 'tag', '') or ''
                if 'ColinearPoints' in tag:
                    flag = err.items[3]
                    want = which == 'source'
                    # with a collinear SOURCE the source error must come first; with a collinear target the target error is only reached for a non-collinear source
                    ck.decide(f'Frame::frame: collinear {which}: ColinearPoints carries source={want}', eng, list(s.pc), z3.BoolVal(flag is not want) if not isz(flag) else (flag != want), ccase, abstract=True) if which == 'source' else None
    # ---------------- distance mismatch >= 5 mm ----------------
    eng = ck.engine(); st = eng.new_state()
    A = [[z3.Real(f'a{k}_{i}') for i in range(3)] for k in range(3)]; Bp = [[z3.Real(f'b{k}_{i}') for i in range(3)] for k in range(3)]
    norms = []
    def norm_log(e, st_, fr, f, a_, m):
        v = e.deref(st_, a_[0]); r = e.na['norm'](v); norms.append((v, r)); return [(st_, r)]
    eng.model(r'na::base::norm::<impl .*>::norm$', norm_log, front=True)
    res = eng.call_body(st, frame_fn(eng, 'frame'), [pt(x) for x in A] + [pt(x) for x in Bp]); ck.states += len(res)
    dcase = lambda m: dict(clause='mismatch', a=[model_float(m, x) for g in A for x in g], b=[model_float(m, x) for g in Bp for x in g])
    def dist_of(P, i, j):
        """the code's own norm of P_i - P_j if it computed one, else an independent root symbol (then nothing in the path constrains it)"""
        for v, r in norms:
            if all(z3.is_true(z3.simplify(v.d[k].v == P[i][k] - P[j][k])) for k in range(3)) or all(z3.is_true(z3.simplify(v.d[k].v == P[j][k] - P[i][k])) for k in range(3)): return r.v
        return eng.trig.sqrt(sum((P[i][k] - P[j][k]) * (P[i][k] - P[j][k]) for k in range(3)))
    if True:
        pairs_ = [(0, 1), (0, 2), (1, 2)]
        da = [dist_of(A, i, j) for i, j in pairs_]; db = [dist_of(Bp, i, j) for i, j in pairs_]
        mism = z3.Or([z3.Or(da[i] - db[i] >= RV('5000001/1000000000'), db[i] - da[i] >= RV('5000001/1000000000')) for i in range(3)])      # more than 5 mm (5.000001 mm: the f64 literal 0.005 is slightly above 5/1000)
        for s, o in res:
            err = None
            if isinstance(o, Enum) and not isz(o.disc) and o.disc == 1:
                err = eng.deref(s, o.items[0]); err = err.items[0] if isinstance(err, BoxV) else err
            if not (err is not None and 'NotIsometry' in (getattr(err, 'tag', '') or '')):
                for pi_ in range(3):
                    one_pair = z3.Or(da[pi_] - db[pi_] >= RV('5000001/1000000000'), db[pi_] - da[pi_] >= RV('5000001/1000000000'))
                    ck.decide(f'Frame::frame: pair {pairs_[pi_]} distance off by more than 5 mm is rejected as NotIsometry', eng, list(s.pc) + [one_pair], z3.BoolVal(True), dcase, abstract=True,
                              nomodel_case=lambda: dict(clause='mismatch_search'))
    # ---------------- Frame::translation ----------------
    eng = ck.engine(); st = eng.new_state()
    p = [z3.Real(f'p{i}') for i in range(3)]; q = [z3.Real(f'q{i}') for i in range(3)]
    res = eng.call_body(st, frame_fn(eng, 'translation'), [pt(p), pt(q)])
    s, o = res[0]; ck.states += 1
    bad = z3.Or([o.t.d[i].v != q[i] - p[i] for i in range(3)] + [o.R.at(i, k).v != (1 if i == k else 0) for i in range(3) for k in range(3)])
    ck.decide('Frame::translation(p,q) == (identity, q - p)', eng, list(s.pc), bad, lambda m: dict(clause='translation', p=[model_float(m, x) for x in p], q=[model_float(m, x) for x in q]))
    # ---------------- forward_transformed ----------------
    eng = ck.engine(); install_dynkin(eng); st = eng.new_state()
    X, prs, tv = euler_iso(eng, 'X'); inner = DynKin('inner', nsol=2)
    w_ = Agg([BoxV([inner]), X], 'frame::Frame')
    qs = Agg([F(z3.Real(f'q{i}')) for i in range(6)]); prev = Agg([F(z3.Real(f'prev{i}')) for i in range(6)])
    res = eng.call_body(st, frame_fn(eng, 'forward_transformed'), [eng.tmp_ref(st, 0, w_), eng.tmp_ref(st, 0, qs), eng.tmp_ref(st, 0, prev)])
    s, o = res[0]; ck.states += 1
    calls = [r for g, r in s.log]
    fcase = lambda m: dict(clause='forward_transformed')
    ok = len(calls) == 2 and calls[0]['method'] == 'forward' and same(calls[0]['args'][0], qs) and calls[1]['method'] == 'inverse_continuing' and same(calls[1]['args'][1], prev) and same(o.items[0], calls[1]['result'])
    ck.decide('forward_transformed: inner forward(qs), then inner inverse_continuing(moved pose, previous); its answers returned unchanged', eng, [], z3.BoolVal(not ok), fcase)
    if len(calls) == 2:
        want = eng.na['iso_mul'](X, calls[0]['result']); Rg = poly.ring_for(eng, extra_pairs=prs)
        for nm, got in (('returned pose', o.items[1]), ('pose handed to the inner solver', calls[1]['args'][0])):
            for i, (lt, rt) in enumerate(zip([x.v for x in got.R.d] + [x.v for x in got.t.d], [x.v for x in want.R.d] + [x.v for x in want.t.d])):
                d = poly.from_z3(Rg, lt) - poly.from_z3(Rg, rt)
                ck.decide(f'forward_transformed: {nm} == frame * forward(qs) [{i}] [normalised, residual terms={d.nterms()}]', eng, list(s.pc), d.to_z3() != 0, fcase)

if __name__ == '__main__':
    main(run, 'C17')
