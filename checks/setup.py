"""MANIFEST.setup_cmd: build the replay binary and warm the MIR cache, offline, from files on disk."""
from .common import *
if __name__ == '__main__':
    p, secs, cached = mirdump.dump(REPO)
    print('MIR dump:', p, f'{secs:.1f}s', 'cached' if cached else 'fresh')
    print('replay binary:', ensure_replay())
