"""C04 — continuation IK returns solutions ordered by closeness to the previous joints.

Components (each on its own MIR):
  leaf        normalize_near + adjust: for now in [-pi,pi], prev in [-2pi,2pi]: out - now in 2pi*{-1,0,1} and |out - prev| <= pi;
              for the wider ranges the entry points can produce (now in [-3pi,3pi], prev in [-4pi,4pi]): out = now + 2pi*m, |m| <= 3
              (this is exactly the summary the pipeline harness uses for normalize_near).
  comparator  sort_by_closeness (mode selection + both comparator closures, through the sort model) on two arbitrary vectors: the
              result is a permutation of the input in non-decreasing order of the DOCUMENTED cost, for no constraints, weight 0, 1/2, 1 (thorough: 1/4, 3/4 and a symbolic weight in (0,1)); absolute values are abstracted consistently (same |x| -> same constant), leaving linear arithmetic.
  pipeline    inverse_continuing / inverse_continuing_5dof: every element is normalised against the effective previous (given joints; centres or
              zeros for the sentinel), the whole list is sorted against it, all kernel answers are kept (superset of plain inverse), see ikentry.check_pipeline.
Not claimed: the dense-trajectory (histories) clause beyond its one-step form.
"""
import z3
from .common import *
from .robot import *
from . import ikentry
from .c07 import TWO_PI

def leaf(ck):
    # third range: a solver answer (in [-pi, pi]) against the centre of a wrap-around limit range, which can lie almost three half-turns out
    for (nlo, nhi, plo, phi, strict) in ((-1, 1, -2, 2, True), (-3, 3, -4, 4, False), (-1, 1, -3, 3, True)):
        eng = ck.engine(unwind=4, pi_rational=True)
        now, prev = z3.Real('now'), z3.Real('prev')
        st = eng.new_state(); st.assume(z3.And(now >= nlo * PI, now <= nhi * PI, prev >= plo * PI, prev <= phi * PI))
        r = eng.tmp_ref(st, 0, F(now))
        res = eng.call_body(st, eng.bodies[eng.find('kinematics_impl::normalize_near')], [r, F(prev)])
        if len(res) != 1: raise Inconclusive('normalize_near forks')
        st = res[0][0]; out = eng.read_ref(st, r); ck.states += 1
        ctx = list(st.pc); label = f'normalize_near[now in {nlo}..{nhi} pi, prev in {plo}..{phi} pi]: '
        case = lambda m: dict(now=model_float(m, now), prev=model_float(m, prev), leaf='true')
        ck.witness(label + 'returns', eng, *ctx)
        if strict and phi > 2:
            ck.decide(label + 'out - now in 2pi*{-2..2}', eng, ctx, z3.Not(z3.Or([out.v == now + TWO_PI * k for k in range(-2, 3)] + [z3.And(z3.Or(now == PI, now == -PI), out.v == -now)])), case, vary=[now, prev])
            ck.decide(label + '|out - prev| <= pi', eng, ctx, z3.Not(z3.And(out.v - prev <= PI, prev - out.v <= PI)), case, vary=[now, prev])
        elif strict:
            ck.decide(label + 'out - now in 2pi*{-1,0,1}', eng, ctx, z3.Not(z3.Or(out.v == now, out.v == now - TWO_PI, out.v == now + TWO_PI, z3.And(z3.Or(now == PI, now == -PI), out.v == -now))), case, vary=[now, prev])
            ck.decide(label + '|out - prev| <= pi', eng, ctx, z3.Not(z3.And(out.v - prev <= PI, prev - out.v <= PI)), case, vary=[now, prev])
        else:
            ck.decide(label + 'out = now + 2pi*m, |m| <= 3', eng, ctx, z3.Not(z3.Or([out.v == now + TWO_PI * k for k in range(-3, 4)] + [z3.And(z3.Or(now == PI, now == -PI), out.v == -now)])), case, vary=[now, prev])
        ck.decide(label + 'finite stays finite', eng, ctx, zb(out.poison()), case)
        ck.decide(label + 'now == prev is left unchanged', eng, ctx + [now == prev], out.v != now, case)
        for ob in eng.obligations: ck.decide(label + f"{ob['kind']} unreachable", eng, [ob['cond']], z3.BoolVal(True), case)

def comparator(ck, mode):
    eng = ck.engine(unwind=4, pi_rational=True)
    st = eng.new_state()
    a = [z3.Real(f'a{j}') for j in range(6)]; b = [z3.Real(f'b{j}') for j in range(6)]; p = [z3.Real(f'p{j}') for j in range(6)]
    cen = [z3.Real(f'c{j}') for j in range(6)]
    for v in a + b + p + cen: st.assume(z3.And(v >= -2 * TWO_PI, v <= 2 * TWO_PI))
    if mode == 'none': cons = None; w = RV(0)
    else:
        w = {'w0': RV(0), 'w1': RV(1), 'w1/4': z3.Q(1, 4), 'w1/2': z3.Q(1, 2), 'w3/4': z3.Q(3, 4), 'wsym': z3.Real('w')}[mode]
        if mode == 'wsym': st.assume(z3.And(w > 0, w < 1))
        cons = Agg([Agg([fconst(0)] * 6), Agg([fconst(0)] * 6), Agg([F(x) for x in cen]), Agg([fconst(1)] * 6), F(w)], 'constraints::Constraints')
    params, pv, off, sign = make_params(P={n: RV(1) for n in PNAMES}, off=[RV(0)] * 6)
    robot = make_robot(params, cons)
    lst = VecV.dense([Agg([F(x) for x in a]), Agg([F(x) for x in b])])
    rr = eng.tmp_ref(st, 0, robot); rl = eng.tmp_ref(st, 0, lst); rp = eng.tmp_ref(st, 0, Agg([F(x) for x in p]))
    res = eng.call_body(st, opw_fn(eng, 'sort_by_closeness'), [rr, rl, rp])
    label = f'sort_by_closeness[{mode}]: '
    def ab(x): return z3.If(x >= 0, x, -x)
    def cost(v):
        dp = sum(ab(v[j] - p[j]) for j in range(6))
        if cons is None: return dp
        dc = sum(ab(v[j] - cen[j]) for j in range(6))
        return dp * (1 - w) + dc * w
    case = lambda m: dict(mode=mode, a=[model_float(m, x) for x in a], b=[model_float(m, x) for x in b], prev=[model_float(m, x) for x in p], centres=[model_float(m, x) for x in cen], weight=model_float(m, w) if isz(w) else 0.0, comparator='true')
    for st2, _ in res:
        out = eng.read_ref(st2, rl); ck.states += 1
        ctx = list(st2.pc)
        o0 = [x.v for x in out.items[0].items]; o1 = [x.v for x in out.items[1].items]
        perm = z3.Or(z3.And(*[o0[j] == a[j] for j in range(6)], *[o1[j] == b[j] for j in range(6)]), z3.And(*[o0[j] == b[j] for j in range(6)], *[o1[j] == a[j] for j in range(6)]))
        ck.decide(label + 'result is a permutation of the input', eng, ctx, z3.Not(perm), case)
        # first with every |x| (a real-valued if-then-else) replaced by a fresh constant, the same term by the same constant: an over-approximation that leaves pure
        # linear arithmetic; the comparator and the documented cost are built from the same absolute differences, so nothing more is needed. Full query only if that fails.
        cache = {}; abs_consts = {}
        def absf(e):
            k = e.get_id()
            if k in cache: return cache[k][1]
            if z3.is_app(e) and e.decl().kind() == z3.Z3_OP_ITE and z3.is_real(e) and z3.is_app(e.arg(0)) and e.arg(0).decl().kind() == z3.Z3_OP_GE and e.arg(0).arg(0).eq(e.arg(1)) \
                    and z3.is_rational_value(e.arg(0).arg(1)) and e.arg(0).arg(1).as_fraction() == 0 and z3.is_true(z3.simplify(e.arg(1) + e.arg(2) == 0)):
                # If(x >= 0, x, -x) = |x| : one constant per argument up to sign and up to the solver's normal form (the executor simplifies its terms)
                key = frozenset((z3.simplify(e.arg(1)).sexpr(), z3.simplify(-e.arg(1)).sexpr()))
                if key not in abs_consts: abs_consts[key] = z3.FreshConst(z3.RealSort(), 'abs')
                r = abs_consts[key]
            elif z3.is_app(e) and e.num_args(): r = e.decl()(*[absf(c) for c in e.children()])
            else: r = e
            cache[k] = (e, r); return r
        goal = cost(o0) > cost(o1)
        # the result is a permutation (proved above): split on which one, so that the costs are those of the INPUT vectors (the terms the comparator computed)
        keep = z3.And(*[o0[j] == a[j] for j in range(6)], *[o1[j] == b[j] for j in range(6)]); swap = z3.And(*[o0[j] == b[j] for j in range(6)], *[o1[j] == a[j] for j in range(6)])
        # congruence the abstraction forgets: equal arguments have equal absolute values
        lem = [absf(z3.Implies(a[j] == b[j], ab(a[j] - q[j]) == ab(b[j] - q[j]))) for j in range(6) for q in ((p, cen) if cons is not None else (p,))]
        r1, _m = ck.query(label + 'order kept => cost(first) <= cost(second) [absolute values abstracted]', None, *[absf(zb(c)) for c in ctx if c is not True], *lem, absf(keep), absf(cost(a) > cost(b)))
        r2, _m = ck.query(label + 'order swapped => cost(second) <= cost(first) [absolute values abstracted]', None, *[absf(zb(c)) for c in ctx if c is not True], *lem, absf(swap), absf(cost(b) > cost(a)))
        if r1 != 'unsat' or r2 != 'unsat': ck.decide(label + 'result in non-decreasing order of the documented cost', eng, ctx, goal, case, vary=a + b)
    for ob in eng.obligations: ck.decide(label + f"{ob['kind']} unreachable", eng, [ob['cond']], z3.BoolVal(True), case)

def run(ck):
    ck.bounds = dict(previous='[-2pi,2pi]^6 or the CONSTRAINT_CENTERED sentinel', weights='none, 0, 1, symbolic in (0,1) for the comparator; 0 (and 1 in thorough) in the pipeline', kernel='n <= 2 answers (0..3 in thorough)')
    ck.assumptions += ['real arithmetic', 'slice::sort_by sorts according to the comparator it is given (std trusted); the comparator closures are executed from MIR',
                       'assume/guarantee: the pipeline harness uses the leaf and filter contracts proved here and in C07']
    leaf(ck)
    for mode in ('none', 'w0', 'w1') + (('w1/2',) if ck.tier != 'thorough' else ('w1/4', 'w1/2', 'w3/4', 'wsym')): comparator(ck, mode)
    ikentry.run_props(ck, ('C04',))

if __name__ == '__main__':
    main(run, 'C04')
