"""C02 — inverse kinematics is complete away from singularities; the answer set is closed.

Encoded (real MIR): OPWKinematics::forward, then OPWKinematics::inverse_intern ON ITS OUTPUT, all parameters and offsets free, joint angles as
algebraic atoms (s_i, c_i). Square roots, atan2 and acos are resolved EXACTLY in the function field: (sin, cos) of atan2(y, x) are (y, x)/r and of
acos(v) are (sqrt(1 - v^2), v) as rational terms; a root is replaced by a candidate c only when c^2 - radicand normalises to zero, and the sign
c >= 0 is the configuration-class assumption (shoulder: sign of the wrist-centre reach cx1; elbow: sign of sin(q3 + psi); wrist: sign of sin q5).
Obligation per class: for the branch that serves it, sin(theta_j) - sin(q_j) and cos(theta_j) - cos(q_j) are rational functions whose numerators normalise
to the zero polynomial, j = 1..6 — i.e. the solver's pre-normalisation angles equal the generating configuration modulo 2*pi, for every parameter set
with c2 > 0, a2^2 + c3^2 > 0 and non-zero reach radii (the denominators that were cleared; listed in the evidence). The residual is decided by z3.
Closure: branches i+4 are (theta4 + pi, -theta5, theta6 - pi) of branch i term-wise, and forward() is invariant under that map (polynomial identity),
so twins are accepted together; distinctness of the 8 branches under the class margins.
Outside: whether the f64 cross-check also passes near the margins (rounding).
"""
import z3, itertools
from .common import *
from .robot import *
from . import c03, ik
from mirsmt import poly

class Algebra:
    """exact resolution of square roots over the ring of the harness (see module docstring)"""
    def __init__(s, eng, ring, positive):
        s.eng, s.R, s.cands, s.roots, s.positive, s.used = eng, ring, [], {}, set(positive), []
        s.known, s.lemmas, s.pair_cache, s.root_polys = {}, [], {}, {}
    def add_candidate(s, term, why): s.cands.append((poly.rat_from_z3(s.R, term), why))
    def sqrt_poly(s, N):
        if N.is_zero(): return poly.RatFunc(s.R.const(0))
        if N.is_const():
            from fractions import Fraction
            from math import isqrt
            c = N.t[()]
            if c > 0 and isqrt(c.numerator) ** 2 == c.numerator and isqrt(c.denominator) ** 2 == c.denominator: return poly.RatFunc(s.R.const(Fraction(isqrt(c.numerator), isqrt(c.denominator))))
        m = poly.sqrt_monomial(N, s.positive)
        if m is not None: return poly.RatFunc(m)
        # M * r^2 for a root symbol r already introduced (the ring rewrites r^2 to its radicand, so squares of roots show up expanded)
        for rsym, Nr in s.root_polys.items():
            q0m, q0c = next(iter(sorted(Nr.t.items())))
            for n0m, n0c in list(N.t.items())[:40]:
                dn, dq = dict(n0m), dict(q0m); ok = True; mm = {}
                for vn in set(dn) | set(dq):
                    e_ = dn.get(vn, 0) - dq.get(vn, 0)
                    if e_ < 0: ok = False; break
                    if e_: mm[vn] = e_
                if not ok: continue
                M = poly.Poly(s.R, {tuple(sorted(mm.items())): n0c / q0c})
                rM = poly.sqrt_monomial(M, s.positive)
                if rM is not None and (M * Nr - N).is_zero(): return poly.RatFunc(rM * s.R.var(rsym))
        for c, why in s.cands:
            if not c.d.is_const(): continue
            P = c.n.scale(1 / c.d.t[()]); Q = P * P
            if Q.is_zero(): continue
            if (Q - N).is_zero():
                if why not in s.used: s.used.append(why)
                return poly.RatFunc(P)
            # N = M * P^2 for a monomial M that is itself a square of positive quantities?
            q0m, q0c = next(iter(sorted(Q.t.items())))
            for n0m, n0c in list(N.t.items())[:80]:
                dn, dq = dict(n0m), dict(q0m); ok = True; mm = {}
                for vn in set(dn) | set(dq):
                    e_ = dn.get(vn, 0) - dq.get(vn, 0)
                    if e_ < 0: ok = False; break
                    if e_: mm[vn] = e_
                if not ok: continue
                M = poly.Poly(s.R, {tuple(sorted(mm.items())): n0c / q0c})
                rM = poly.sqrt_monomial(M, s.positive)
                if rM is None: continue
                if (M * Q - N).is_zero():
                    if why not in s.used: s.used.append(why)
                    return poly.RatFunc(rM * P)
        return None
    def sqrt(s, x):
        try: rf = poly.rat_from_z3(s.R, x)
        except poly.NotPolynomial: return None
        rn, rd = s.sqrt_poly(rf.n), s.sqrt_poly(rf.d)
        if rn is not None and rd is not None: return (rn / rd).to_z3()
        if rd is not None and rf.d.is_const() is False:
            # known denominator, unknown numerator: sqrt(N)/sqrt(D) with a canonical symbol for sqrt(N)
            return s.symbol(rf.n) / rd.to_z3()
        if not rf.d.is_const(): return None
        return s.symbol(rf.n.scale(1 / rf.d.t[()]))
    def simplify_pair(s, t, sv, cv):
        """lemma step: if (sin, cos) of an angle term are EXACTLY (normal form zero) those of a known angle of the generating configuration, continue with
        the short form; every such replacement is a discharged lemma and is logged"""
        key = z3.simplify(t).sexpr()
        if key in s.pair_cache: return s.pair_cache[key]
        out = (sv, cv)
        try:
            rs, rc = poly.rat_from_z3(s.R, sv), poly.rat_from_z3(s.R, cv)
            for name, (ks, kc) in s.known.items():
                if (rs - ks).is_zero() and (rc - kc).is_zero():
                    out = (ks.to_z3(), kc.to_z3()); s.lemmas.append(f'(sin,cos)({str(z3.simplify(t))[:60]}) == (sin,cos)({name})'); break
        except poly.NotPolynomial: pass
        s.pair_cache[key] = out; return out
    def symbol(s, N):
        key = repr(sorted(N.t.items()))
        if key not in s.roots:
            r = fresh('root'); s.roots[key] = r; s.R.square(r, N); s.root_polys[r] = N; s.R.vars[r.decl().name()] = r; s.positive.add(r.decl().name())
            s.eng.side += [r >= 0, r * r == N.to_z3()]; s.eng.side_lin.append(r >= 0)
        return s.roots[key]

def run_class(ck, shoulder, elbow, wrist):
    eng, st, fwd, poses, pv, off, sg, j, q, sc = c03.setup(ck, concrete_signs=[1] * 6)
    R = poly.Ring()
    for s_, c_ in sc: R.pair(s_, c_)
    alg = Algebra(eng, R, {'c2'})
    # c03.setup already executed forward() with the plain trig model (psi as an atan2 atom with its own pair): re-run in exact mode
    eng2 = ck.engine(unwind=8); eng2.trig.atoms = list(q)
    for i in range(6): eng2.trig.set_pair(q[i], sc[i][0], sc[i][1]); eng2.side.append(sc[i][0] * sc[i][0] + sc[i][1] * sc[i][1] == 1)
    alg.eng = eng2; eng2.trig.algebraic = alg
    params, _, _, _ = make_params(P=pv, off=off, sign=[1] * 6); robot = make_robot(params)
    st = eng2.new_state(); st.assume(pv['c2'] > 0)
    for o in off: st.assume(z3.And(o >= -2 * PI, o <= 2 * PI))
    rr = eng2.tmp_ref(st, 0, robot); rj = eng2.tmp_ref(st, 0, Agg([F(x) for x in j]))
    res = eng2.call_body(st, opw_fn(eng2, 'forward'), [rr, rj])
    if len(res) != 1: raise Inconclusive('forward forks')
    st, pose = res[0]
    # configuration class: candidates for the roots, in terms of the generating configuration
    s2, c2c = sc[1]; s3, c3c = sc[2]; s5 = sc[4][0]
    S23 = s2 * c3c + c2c * s3
    cx1 = pv['c2'] * s2 + (S23 * pv['c3'] + (c2c * c3c - s2 * s3) * pv['a2']) + pv['a1']          # c2 sin q2 + k sin(q2+q3+psi) + a1
    S3k = s3 * pv['c3'] + c3c * pv['a2']                                                            # k sin(q3 + psi)
    alg.add_candidate(cx1 if shoulder > 0 else -cx1, f'shoulder: cx1 {">" if shoulder > 0 else "<"} 0')
    alg.add_candidate((2 * pv['c2'] * S3k) if elbow > 0 else -(2 * pv['c2'] * S3k), f'elbow: sin(q3+psi) {">" if elbow > 0 else "<"} 0 (and c2 > 0)')
    alg.add_candidate(s5 if wrist > 0 else -s5, f'wrist: sin q5 {">" if wrist > 0 else "<"} 0')
    C23 = c2c * c3c - s2 * s3
    for nm, (ks, kc) in dict(q1=sc[0], q2=sc[1], q3=sc[2], q4=sc[3], q5=sc[4], q6=sc[5]).items(): alg.known[nm] = (poly.rat_from_z3(R, ks), poly.rat_from_z3(R, kc))
    alg.known['q2+q3'] = (poly.rat_from_z3(R, S23), poly.rat_from_z3(R, C23))
    rec = dict(forward=[], angle_to=[], norm=[]); ik.install_pose_oracles(eng2, rec)
    fn = opw_fn(eng2, 'inverse_intern'); eng2.capture.add(fn.name)
    res = eng2.call_body(st, fn, [rr, eng2.tmp_ref(st, 0, pose)])
    caps = eng2.captured.get(fn.name, [])
    if len(caps) < 1 or 'theta' not in caps[0][1]: raise Inconclusive(f'could not read the branch table `theta` of inverse_intern ({len(caps)} return states)')
    theta = caps[0][1]['theta']; ck.states += 1
    label = f"class(shoulder{'+' if shoulder > 0 else '-'},elbow{'+' if elbow > 0 else '-'},wrist{'+' if wrist > 0 else '-'}): "
    case = lambda m=None: dict(clause='completeness', shoulder=shoulder, elbow=elbow, wrist=wrist)
    matches = []
    detail = {}
    expected = (0 if shoulder > 0 else 2) + (0 if elbow > 0 else 1) + (0 if wrist > 0 else 4)      # the branch whose square-root signs are those of this class
    for b in (expected,):
        resid = []
        for jn in range(6):
            try:
                sv, cv = eng2.trig.sincos(theta.items[b].items[jn].v)
                ds = poly.rat_from_z3(R, sv - sc[jn][0]); dc = poly.rat_from_z3(R, cv - sc[jn][1])
                resid.append((ds.n.nterms(), dc.n.nterms()))
                if 0 < ds.n.nterms() <= 40 and os.environ.get('C02_DEBUG'): print('RESID sin theta', jn + 1, ds.n, '/', ds.d)
            except poly.NotPolynomial as e:
                resid.append((-1, -1))
        detail[b] = resid
        if all(r == (0, 0) for r in resid): matches.append(b)
    ck.notes.append(label + f'residual term counts per branch (sin, cos per joint): {detail}; class assumptions used for roots: {alg.used}; lemmas discharged on the way: {alg.lemmas}')
    # the obligation proper: some branch reproduces the generating configuration — sent to the solver joint by joint for the best branch
    best = expected
    for jn in range(6):
        sv, cv = eng2.trig.sincos(theta.items[best].items[jn].v)
        for nm, val, ref in (('sin', sv, sc[jn][0]), ('cos', cv, sc[jn][1])):
            try:
                d = poly.rat_from_z3(R, val - ref)
                ck.decide(label + f'branch {best}: {nm}(theta{jn + 1}) == {nm}(q{jn + 1}) [numerator normalised, residual terms={d.n.nterms()}]', eng2, [], d.n.to_z3() != 0, case, nomodel_case=case, abstract=True)
            except poly.NotPolynomial as e:
                ck.decide(label + f'branch {best}: {nm}(theta{jn + 1}) == {nm}(q{jn + 1}) [not rational: {e}]', eng2, [], z3.BoolVal(True), case, nomodel_case=case)
    ck.decide(label + 'a branch reproduces the generating configuration', eng2, [], z3.BoolVal(not matches), case, nomodel_case=case)
    return theta, eng2

def closure(ck):
    """wrist-flipped twins: table rows i+4 vs i, and invariance of forward under (q4+pi, -q5, q6-pi)"""
    eng = ck.engine(unwind=8); eng.trig.expand = False
    params, pv, off, sign = make_params(sign=[1] * 6); robot = make_robot(params)
    st = eng.new_state()
    from .c09 import free_pose
    rec = dict(forward=[], angle_to=[], norm=[]); ik.install_pose_oracles(eng, rec)
    fn = opw_fn(eng, 'inverse_intern'); eng.capture.add(fn.name)
    eng.call_body(st, fn, [eng.tmp_ref(st, 0, robot), eng.tmp_ref(st, 0, free_pose('pose'))])
    caps = eng.captured.get(fn.name, [])
    case = lambda m=None: dict(clause='closure')
    if len(caps) < 1 or 'theta' not in caps[0][1]: raise Inconclusive('branch table not captured')
    theta = caps[0][1]['theta']
    for i in range(4):
        a, b = theta.items[i].items, theta.items[i + 4].items
        goal = z3.Or(b[0].v != a[0].v, b[1].v != a[1].v, b[2].v != a[2].v, b[3].v != a[3].v + PI, b[4].v != -a[4].v, b[5].v != a[5].v - PI)
        ck.decide(f'closure: branch {i + 4} is (theta4 + pi, -theta5, theta6 - pi) of branch {i}', eng, [], goal, case, nomodel_case=case)
    # forward invariance under the flip: polynomial identity on the MIR terms of forward()
    eng3, st3, fwd, poses, pv3, off3, sg3, j3, q3, sc3 = c03.setup(ck)
    R = poly.ring_for(eng3, signs=sg3)
    th, y, x = eng3.trig.atan2s[0]; spsi, cpsi = eng3.trig.pair(th); kroot = eng3.trig.sqrt(x * x + y * y)
    R.rule([kroot, spsi], poly.from_z3(R, y)); R.rule([kroot, cpsi], poly.from_z3(R, x))
    # substitute (s4,c4,s5,c5,s6,c6) -> (-s4,-c4,-s5,c5,-s6,-c6)
    sub = [(sc3[3][0], -sc3[3][0]), (sc3[3][1], -sc3[3][1]), (sc3[4][0], -sc3[4][0]), (sc3[5][0], -sc3[5][0]), (sc3[5][1], -sc3[5][1])]
    terms = [x_.v for x_ in fwd.R.d] + [x_.v for x_ in fwd.t.d]
    for k, t in enumerate(terms):
        d = poly.from_z3(R, z3.substitute(t, *sub)) - poly.from_z3(R, t)
        ck.decide(f'closure: forward is invariant under (q4+pi, -q5, q6-pi) [{k}] [normalised, residual terms={d.nterms()}]', eng3, list(st3.pc), d.to_z3() != 0, case, nomodel_case=case)

def run(ck):
    ck.bounds = dict(parameters='all reals with c2 > 0, a2^2 + c3^2 > 0, non-zero reach radii (cleared denominators)', classes='8 sign classes of (cx1, sin(q3+psi), sin q5); margins: strictly non-zero', signs='identity pattern (sign/offset round trip is C03/C01)')
    ck.assumptions += ['exact real arithmetic in the function field of the configuration', 'class assumptions fix the sign of the three square roots that select a branch', 'forward(answer) == pose and hence acceptance follow from equality of (sin, cos) of every joint (C03: forward depends on joints only through them)']
    classes = list(itertools.product((1, -1), repeat=3))
    if ck.tier == 'quick': classes = [(1, 1, 1), (1, -1, -1), (-1, 1, 1), (-1, -1, 1)]
    mirdump.load(REPO); ensure_replay()
    ck.parallel([('checks.c02', 'closure', ())] + [('checks.c02', 'run_class_job', cl) for cl in classes])

def run_class_job(ck, sh, el, wr): run_class(ck, sh, el, wr)

if __name__ == '__main__':
    main(run, 'C02')
