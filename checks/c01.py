"""C01 — every inverse-kinematics solution returned reproduces the requested pose, is finite, normalised; never panics.

Part A (inverse_intern, inverse_intern_5_dof — whole bodies from MIR, self.forward and angle_to as oracles):
  dominance  : every pushed solution carries a guard implying |pose.t - F.t| <= 1e-6 and angle_to(pose.R, F.R) <= 1e-6,
               where F is what self.forward returned FOR THAT VERY VECTOR (5-DOF: position only); with C03 (forward == the
               independent link chain) this is "lands on the pose through an independent FK model".
  finiteness : guard => every angle finite and in [-pi, pi] (5-DOF: J1..J5; J6 is the caller's value)
  no panic   : every panic/unwinding obligation of the function is refuted, also for non-finite pose components.
Part B (the four public entry points, inverse_intern* replaced by the summary Part A justifies): every returned vector is
  (mod 2pi per joint; exactly, for plain inverse) an element of the first solver call or the singular candidate, the
  latter only under compare_poses(pose, forward(candidate)) with the UNSHIFTED pose; outputs finite.
Bounds: |offset_j| <= 2pi (loops `while angle > PI` unwound with solver-checked bound), sign patterns enumerated
(quick: 3, thorough: 16 incl. seeded), summaries with n <= 2 answers per solver call.
"""
import z3
from .common import *
from .robot import *
from . import ik

def sign_patterns(ck):
    pats = [(1,) * 6, (-1,) * 6]
    r = ck.rng
    n = 1 if ck.tier == 'quick' else 14
    while len(pats) < 2 + n:
        p = tuple(r.choice((1, -1)) for _ in range(6))
        if p not in pats: pats.append(p)
    return pats

def part_a(ck, fname, signs, poison, dof5):
    j6 = F(z3.Real('j6arg')) if dof5 else None
    h = ik.intern(ck, fname, signs, poison=poison, j6=j6)
    eng, st, out, pose, rec = h['eng'], h['st'], h['out'], h['pose'], h['rec']
    label = f"{fname}[signs={''.join('+' if s > 0 else '-' for s in signs)}{',nonfinite pose' if poison else ''}]: "
    def case(m):
        c = dict(params=[model_float(m, h['pv'][n]) for n in PNAMES], off=[model_float(m, o) for o in h['off']], sign=[float(s) for s in signs], dof=5 if dof5 else 6,
                 pose_t=[model_float(m, x.v) for x in pose.t.d], pose_r=[model_float(m, x.v) for x in pose.R.d], part='A')
        if poison: c['nan'] = [bool(z3.is_true(m.eval(zb(x.nan), model_completion=True))) for x in list(pose.t.d) + list(pose.R.d)]
        return c
    def search(): return dict(sign=[float(s_) for s_ in signs], dof=5 if dof5 else 6, part='A', search='true')
    ctx = list(st.pc)
    ck.witness(label + 'returns', None, *eng.side_lin, *[eng.linearize(x) for x in ctx])
    if not isinstance(out, VecV) or len(out.ents) > 8:
        ck.decide(label + 'result is a list of at most 8 vectors', eng, ctx, z3.BoolVal(True), case); return
    ck.witness(label + 'some solution is returned', None, *eng.side_lin, *[eng.linearize(x) for x in ctx], eng.linearize(z3.Or([zb(g) for g, _ in out.ents])) if out.ents else z3.BoolVal(False))
    for i, (g, v) in enumerate(out.ents):
        # which forward call was made for this very vector?
        F_i = [r for a, r in rec['forward'] if same(a, v)]
        if not F_i:
            ck.decide(label + f'solution {i}: pushed without a forward cross-check of that vector', eng, ctx, zb(g), case, nomodel_case=search, abstract=True); continue
        F_i = F_i[-1]
        n_i = ik.norm_of_diff(rec, pose.t, F_i.t)
        if n_i is None:
            ck.decide(label + f'solution {i}: position never compared with the requested one', eng, ctx, zb(g), case, nomodel_case=search, abstract=True); continue
        goal = z3.Or(zb(n_i.poison()), n_i.v > ik.TOL)
        if not dof5:
            A_i = [a for pr, fr_, a in rec['angle_to'] if same(fr_, F_i.R) and same(pr, pose.R)]
            if not A_i:
                ck.decide(label + f'solution {i}: orientation never compared with the requested one', eng, ctx, zb(g), case, nomodel_case=search, abstract=True); continue
            goal = z3.Or(goal, A_i[-1] > ik.TOL)
        if not poison:
            ck.decide(label + f'solution {i}: guard => cross-check within 1e-6 / 1e-6 of the requested pose', eng, ctx + [zb(g)], goal, case, nomodel_case=search, abstract=True)
        nj = 5 if dof5 else 6
        bad = z3.Or([z3.Or(zb(v.items[j].poison()), v.items[j].v > PI, v.items[j].v < -PI) for j in range(nj)])
        ck.decide(label + f'solution {i}: guard => J1..J{nj} finite and in [-pi,pi]', eng, ctx + [zb(g)], bad, case, nomodel_case=search, abstract=True)
        if dof5: ck.decide(label + f'solution {i}: J6 is the caller value', eng, ctx + [zb(g)], z3.BoolVal(not same(v.items[5], j6)), case, nomodel_case=search, abstract=True)
    for ob in eng.obligations:
        ck.decide(label + f"{ob['kind']} unreachable: {ob['msg'][:50]}", eng, [ob['cond']], z3.BoolVal(True), case, nomodel_case=search, abstract=True)
    ck.notes.append(label + f"{len(eng.obligations)} panic/unwind obligations, {len(rec['forward'])} forward cross-checks")

def run(ck):
    ck.bounds = dict(offsets='|offset_j| <= 2pi', signs='enumerated patterns (see evidence notes)', parameters='all reals', pose='12 free reals (+ independent non-finite flags in the no-panic run)',
                     summary='n <= 2 answers per inner solver call in Part B')
    ck.assumptions += ['real arithmetic; +-inf treated like NaN except where tracked', 'C03: self.forward equals the independent link chain (proved separately)',
                       'angle_to(a,b) >= 0 is the rotation distance (nalgebra trusted)', 'sin/cos/atan2/acos/sqrt results are opaque here except for their ranges (only finiteness/range and data flow matter for dominance)']
    pats = sign_patterns(ck)
    mirdump.load(REPO)     # dump once, before forking
    ensure_replay()
    jobs = []
    for sg in pats:
        jobs.append(('checks.c01', 'part_a', ('inverse_intern', sg, False, False)))
        jobs.append(('checks.c01', 'part_a', ('inverse_intern_5_dof', sg, False, True)))
    jobs.append(('checks.c01', 'part_a', ('inverse_intern', pats[0], True, False)))
    jobs.append(('checks.c01', 'part_a', ('inverse_intern_5_dof', pats[0], True, True)))
    ck.parallel(jobs)
    from . import ikentry, c04
    c04.leaf(ck)      # answers are normalised AFTER the cross-check: the leaf contract (out == now mod 2pi) is what keeps them on the pose
    ikentry.c01_part_b(ck)

if __name__ == '__main__':
    main(run, 'C01')
