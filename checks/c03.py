"""C03 — forward kinematics equals the OPW link chain, for the tool point and every link.

Encoded (real MIR): OPWKinematics::forward, forward_with_joint_poses (nalgebra calls -> matrix models).
Oracle: product of the six elementary joint transforms, written here independently (plain 3x3 lists).
All parameters, offsets, sign symbols (sigma^2 = 1) and joint angles are free reals; angles enter only
through (sin, cos) pairs of the atoms q_i = joint_i*sigma_i - offset_i, so |q| >> 2pi is covered.
Obligations are polynomial identities; each is normalised modulo the asserted unit-circle relations and
the residual is decided by z3.
"""
import z3
from .common import *
from .robot import *
from mirsmt import poly

def Rz(s, c): return [[c, -s, 0], [s, c, 0], [0, 0, 1]]
def Ry(s, c): return [[c, 0, s], [0, 1, 0], [-s, 0, c]]
def mm(A, B): return [[sum(A[i][k] * B[k][j] for k in range(3)) for j in range(3)] for i in range(3)]
def mv(A, v): return [sum(A[i][k] * v[k] for k in range(3)) for i in range(3)]
def oracle_chain(P, sc):
    """link frames (R, t) of the OPW model from (sin,cos) pairs of q1..q6"""
    steps = [(Rz(*sc[0]), [0, 0, P['c1']]), (Ry(*sc[1]), [P['a1'], P['b'], 0]), (Ry(*sc[2]), [0, 0, P['c2']]),
             (Rz(*sc[3]), [P['a2'], 0, 0]), (Ry(*sc[4]), [0, 0, P['c3']]), (Rz(*sc[5]), [0, 0, P['c4']])]
    out = []; R = [[1, 0, 0], [0, 1, 0], [0, 0, 1]]; t = [0, 0, 0]
    for Rs, ts in steps:
        rt = mv(R, ts); t = [t[i] + rt[i] for i in range(3)]; R = mm(R, Rs); out.append((R, t))
    return out

def setup(ck, concrete_signs=None, dof=6):
    eng = ck.engine()
    j = [z3.Real(f'j{i}') for i in range(6)]
    sg = [z3.Real(f'sg{i}') for i in range(6)] if concrete_signs is None else list(concrete_signs)
    params, pv, off, sign = make_params(sign=sg, dof=dof)
    if concrete_signs is None: eng.side += [s_ * s_ == 1 for s_ in sg]
    robot = make_robot(params)
    q = [j[i] * sg[i] - off[i] for i in range(6)]
    eng.trig.atoms = list(q)
    st = eng.new_state()
    rr = eng.tmp_ref(st, 0, robot); rj = eng.tmp_ref(st, 0, Agg([F(x) for x in j]))
    res = eng.call_body(st, opw_fn(eng, 'forward'), [rr, rj])
    if len(res) != 1: raise Inconclusive('forward forks')
    st, fwd = res[0]
    res = eng.call_body(st, opw_fn(eng, 'forward_with_joint_poses'), [rr, rj])
    if len(res) != 1: raise Inconclusive('forward_with_joint_poses forks')
    st, poses = res[0]; ck.states += 1
    sc = [eng.trig.pair(q[i]) for i in range(6)]
    return eng, st, fwd, poses, pv, off, sg, j, q, sc

def run(ck):
    # forward and the link poses do not depend on the dof field: the same identities are decided for the 6-DOF and the 5-DOF parameter set
    # (for a 5-DOF robot the J6 slot is the tool rotation the 5-DOF entry points pass through, and forward applies it)
    for dof in (6, 5): run_one(ck, dof)

def run_one(ck, dof):
    pre = '' if dof == 6 else '[dof=5] '
    ck.bounds = dict(angles='unbounded (only sin/cos of q_i enter)', parameters='all reals incl. zero/negative', signs='symbolic sigma_i with sigma_i^2 = 1 (all 64 patterns at once)')
    ck.assumptions += ['real arithmetic', 'nalgebra modelled mathematically; UnitQuaternion and Rotation3 both as 3x3 matrices (their equivalence is trusted)',
                       'sin/cos as algebraic pairs s^2+c^2=1; atan2/sqrt by their defining constraints']
    eng, st, fwd, poses, pv, off, sg, j, q, sc = setup(ck, dof=dof)
    chain = oracle_chain(pv, sc)
    R = poly.ring_for(eng, signs=sg)
    # psi = atan2(a2, c3), k = sqrt(a2^2 + c3^2):  k*sin(psi) = a2, k*cos(psi) = c3 (asserted by the atan2 model)
    if len(eng.trig.atan2s) != 1: raise Inconclusive(f'expected one atan2 in forward, found {len(eng.trig.atan2s)}')
    th, y, x = eng.trig.atan2s[0]; spsi, cpsi = eng.trig.pair(th); kroot = eng.trig.sqrt(x * x + y * y)
    R.rule([kroot, spsi], poly.from_z3(R, y)); R.rule([kroot, cpsi], poly.from_z3(R, x))
    ctx = [st.pcz()]
    ck.witness('forward returns', eng, *ctx)
    def case(m):
        """concrete robot + joint vector from a solver model: the model fixes (sin, cos) of every angle term the code took a sine/cosine of;
        joints and offsets are recovered by solving sin(t_k(j,off)) = s_k, cos(t_k(j,off)) = c_k numerically (witness extraction only)"""
        import math
        import numpy as np
        from scipy.optimize import least_squares
        sgv = [float(round(model_float(m, s_)) or 1.0) for s_ in sg]
        xs = list(j) + list(off)
        forms = []
        for key, (sv, cv) in eng.trig.pairs.items():
            t = eng.trig.pair_terms[key]
            fv = free_names(t)
            if not fv <= {v.decl().name() for v in xs + sg}: continue          # atan2/acos results etc.: not functions of the joints alone
            def ev(vals):
                sub = [(x, RV(float(v))) for x, v in zip(xs, vals)] + [(s_, RV(v)) for s_, v in zip(sg, sgv)]
                r = z3.simplify(z3.substitute(t, *sub))
                return float(r.as_fraction()) if z3.is_rational_value(r) else float('nan')
            c0 = ev([0.0] * 12); co = [ev([1.0 if i == k else 0.0 for i in range(12)]) - c0 for k in range(12)]
            forms.append((c0, co, model_float(m, sv), model_float(m, cv)))
        def resid(x):
            out = []
            for c0, co, s_, c_ in forms:
                a = c0 + sum(ci * xi for ci, xi in zip(co, x)); out += [math.sin(a) - s_, math.cos(a) - c_]
            return out
        best = None
        for trial in range(6):
            x0 = np.array([ck.rng.uniform(-3, 3) for _ in range(12)])
            r = least_squares(resid, x0)
            if best is None or r.cost < best.cost: best = r
            if best.cost < 1e-18: break
        x = list(best.x) if best is not None else [0.0] * 12
        return dict(params=[model_float(m, pv[n]) for n in PNAMES], off=[float(v) for v in x[6:]], sign=sgv, joints=[float(v) for v in x[:6]], dof=dof, fit_cost=float(best.cost) if best is not None else -1.0)
    def free_names(t):
        acc = set(); todo = [t]; seen = set()
        while todo:
            u = todo.pop()
            if u.get_id() in seen: continue
            seen.add(u.get_id())
            if z3.is_const(u) and u.decl().kind() == z3.Z3_OP_UNINTERPRETED: acc.add(u.decl().name())
            todo += u.children()
        return acc
    n_id = [0, 0]
    def identity(name, lhs, rhs):
        """lhs, rhs z3 reals; normalise the difference, let the solver decide the residual"""
        name = pre + name
        try:
            res_p = poly.from_z3(R, lhs) - poly.from_z3(R, z3.simplify(rhs) if isz(rhs) else RV(rhs))
            resid = res_p.to_z3(); n_id[0] += 1; n_id[1] += res_p.nterms()
            goal = resid != 0
            name2 = f'{name} [normalised, residual terms={res_p.nterms()}]'
        except poly.NotPolynomial as e:
            goal = lhs != rhs; name2 = name + ' [raw]'
        r = ck.decide(name2, eng, ctx, goal, case, what=name + ' fails')
        return r
    def fv(x):
        return x.v
    # 1. tool flange = oracle chain, = poses[5]; every link pose = oracle link
    bad = 0
    for i in range(3):
        identity(f'forward.t[{i}] == chain', fv(fwd.t.d[i]), chain[5][1][i])
        for k in range(3): identity(f'forward.R[{i}][{k}] == chain', fv(fwd.R.at(i, k)), chain[5][0][i][k])
    for li in range(6):
        P_ = poses.items[li]
        for i in range(3):
            identity(f'poses[{li}].t[{i}] == chain link {li + 1}', fv(P_.t.d[i]), chain[li][1][i])
            for k in range(3): identity(f'poses[{li}].R[{i}][{k}] == chain link {li + 1}', fv(P_.R.at(i, k)), chain[li][0][i][k])
    for i in range(3):
        identity(f'poses[5].t[{i}] == forward', fv(poses.items[5].t.d[i]), fv(fwd.t.d[i]))
    # 2. consecutive origins separated by the parameter-defined offsets
    sep = [pv['a1'] * pv['a1'] + pv['b'] * pv['b'], pv['c2'] * pv['c2'], pv['a2'] * pv['a2'], pv['c3'] * pv['c3'], pv['c4'] * pv['c4']]
    for li in range(5):
        a_, b_ = poses.items[li].t.d, poses.items[li + 1].t.d
        d2 = sum((fv(b_[i]) - fv(a_[i])) * (fv(b_[i]) - fv(a_[i])) for i in range(3))
        identity(f'|o{li + 2} - o{li + 1}|^2 == link offset', d2, sep[li])
    # 3. rotations are proper: R R^T = I, det R = 1 for forward (from_matrix_unchecked!) and every link
    def proper(name, Rm):
        M = [[fv(Rm.at(i, k)) for k in range(3)] for i in range(3)]
        for i in range(3):
            for k in range(i, 3):
                identity(f'{name}: (R R^T)[{i}][{k}] == delta', sum(M[i][l] * M[k][l] for l in range(3)), 1 if i == k else 0)
        det = (M[0][0] * (M[1][1] * M[2][2] - M[1][2] * M[2][1]) - M[0][1] * (M[1][0] * M[2][2] - M[1][2] * M[2][0]) + M[0][2] * (M[1][0] * M[2][1] - M[1][1] * M[2][0]))
        identity(f'{name}: det R == 1', det, 1)
    proper('forward', fwd.R)
    if ck.tier == 'thorough':
        for li in range(6): proper(f'poses[{li}]', poses.items[li].R)
    # 4. finite inputs give finite outputs
    for nm, val in [('forward.t', fwd.t), ('forward.R', fwd.R)] + [(f'poses[{li}].t', poses.items[li].t) for li in range(6)]:
        pz = b_or(*[x.poison() for x in val.d])
        if pz is not False: ck.decide(f'{nm} finite', eng, ctx, zb(pz), case, what=f'{nm} not finite for finite inputs')
    ck.notes.append(f'{n_id[0]} identities normalised, total residual terms {n_id[1]}')
    ck.engine_obligations(eng, label=pre + 'forward: ')

if __name__ == '__main__':
    main(run, 'C03')
