"""Regenerates /verif/MANIFEST.json from the table below (run: python3-vt -m checks.manifest)."""
import json, os
VERIF = os.path.dirname(os.path.dirname(os.path.abspath(__file__)))
TECH = 'bounded symbolic execution of rustc MIR (mirsmt) + z3 SMT verdict (QF_LRA/NRA/LIA over reals), counterexamples replayed natively'
NOTE = ('Real-number reading of f64 (IEEE rounding, signed zeros outside the claim); rustc MIR printer, the mirsmt parser/executor and its std/nalgebra '
        'models, and z3 are trusted; bounds are listed in the evidence file and DESIGN.md')
CHECKS = {
 'C07': dict(text='For every from,to,x in [-4pi,4pi] (each joint, all three constructors) the solver proves compliant(x) <=> arc membership (oracle written from the '
                  'property text in linear real arithmetic with integer turns), centres accepted, filter = order-preserving selection of the compliant elements; '
                  'loops unwound with solver-discharged unwinding assertions. Exhaustive over all real values in the range, which a lattice of test points cannot be.',
             design='6/C07'),
}
PENDING = {}
NA = {}
def main():
    props = [json.loads(l) for l in open(os.path.join(VERIF, 'properties.jsonl'))]
    checks = []
    for pid, c in CHECKS.items():
        checks.append(dict(property_id=pid, quick_cmd=f'python3-vt -m checks.{pid.lower()} --tier quick', thorough_cmd=f'python3-vt -m checks.{pid.lower()} --tier thorough',
                           evidence_file=f'/verif/evidence/{pid}.json', replay_cmd_template='python3-vt -m checks.replay {path}', engine='mirsmt',
                           level_claimed=dict(category='model_checking', text=c['text'], design_ref=c.get('design', '')),
                           level_note=c.get('note', NOTE), technique=c.get('technique', TECH)))
    na = []
    for p in props:
        if p['id'] in CHECKS: continue
        na.append(dict(property_id=p['id'], reason=NA.get(p['id'], 'check not built yet in this round (planned, see DESIGN.md section 6); not claimed until its harness runs')))
    m = dict(version=1, setup_cmd='python3-vt -m checks.setup',
             hooks=dict(guard='rs_opw_kinematics_verif', enable="RUSTFLAGS='--cfg rs_opw_kinematics_verif' (set by checks/common.py when it builds /verif/replay against /repo)",
                        baseline_off_cmd='cd /repo && cargo test --workspace --no-fail-fast --offline', source_commits=[], add_only=True),
             engines=[dict(name='mirsmt', path='/verif/mirsmt', serves_properties=sorted(CHECKS), kind_free_text='symbolic executor for rustc MIR (-Zunpretty=mir of the current tree) with state merging, producing real-arithmetic SMT obligations for z3'),
                      dict(name='replay', path='/verif/replay', serves_properties=sorted(CHECKS), kind_free_text='Rust binary linking the current /repo tree; re-runs solver counterexamples natively against oracles written from the property text')],
             checks=checks, not_applicable=na,
             notes='Exit codes: 0 property held within the stated bounds; 1 VIOLATION (natively reproduced counterexample); 2 inconclusive (solver unknown, unmodelled code, non-reproducing counterexample) - never reported as a violation.')
    json.dump(m, open(os.path.join(VERIF, 'MANIFEST.json'), 'w'), indent=1)
    print('wrote MANIFEST.json with', len(checks), 'checks,', len(na), 'not applicable')
if __name__ == '__main__': main()
