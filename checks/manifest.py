"""Regenerates /verif/MANIFEST.json from the table below (run: python3-vt -m checks.manifest)."""
import json, os
VERIF = os.path.dirname(os.path.dirname(os.path.abspath(__file__)))
TECH = 'bounded symbolic execution of rustc MIR (mirsmt) + z3 SMT verdict (QF_LRA/NRA/LIA over reals), counterexamples replayed natively'
NOTE = ('Real-number reading of f64 (IEEE rounding, signed zeros outside the claim); rustc MIR printer, the mirsmt parser/executor and its std/nalgebra '
        'models, and z3 are trusted; bounds are listed in the evidence file and DESIGN.md')
CHECKS = {
 'C07': dict(text='For every from,to,x in [-4pi,4pi] (each joint, all three constructors) the solver proves compliant(x) <=> arc membership (oracle written from the '
                  'property text in linear real arithmetic with integer turns), centres accepted, filter = order-preserving selection of the compliant elements; '
                  'loops unwound with solver-discharged unwinding assertions. Exhaustive over all real values in the range, which a lattice of test points cannot be.',
             design='6/C07'),
}
CHECKS.update({
 'C18': dict(text='random_angles/random_angle executed symbolically with gen_range(lo..hi) replaced by an oracle returning ANY u in [lo,hi) (panicking iff the range is empty): '
                  'for every from,to in [-2pi,2pi] and every generator outcome the solver proves the produced angle lies on the arc (oracle) and is accepted by the real compliant(), '
                  'and that no panic is reachable when the arc has positive width. Covers all outcomes of the RNG, which drawing samples cannot.', design='6/C18'),
 'C05': dict(text='Clause (a) (detection): kinematic_singularity + is_close_to_multiple_of_pi executed from MIR; for |J5|<=4pi, |offset5|<=2pi, sign5=+-1 the solver proves '
                  'reported <=> distance of q5=J5*sign5-offset5 to the nearest multiple of pi is below 0.01 deg (both directions, both sides of every multiple). '
                  'Clause (b)/(c) (J4/J6 continuity of the recovered answer) is covered structurally by the continuation harness when built; the micro-shift recovery under rounding is outside this technique.', design='6/C05'),
 'C03': dict(text='forward and forward_with_joint_poses executed from MIR through mathematical nalgebra models; with ALL parameters, offsets, sign symbols (sigma^2=1) and joint angles free, '
                  'the solver decides (after normalisation modulo the asserted unit-circle relations) that the tool pose and every link pose equal the independently written product of the six '
                  'elementary transforms, origins are separated by the parameter offsets, and the matrix given to from_matrix_unchecked is a proper rotation. Angles enter only via sin/cos, so |q|>>2pi is covered.', design='6/C03'),
})
CHECKS.update({
 'C09': dict(text='All 8 trait methods of Tool, Base, Frame (+ LinearAxis/Gantry forward) executed from MIR around an ORACLE inner robot (arbitrary implementation; every call logged): the solver '
                  'discharges the full delegation matrix (entry point X -> exactly one inner X, j6/previous unchanged, answer list unchanged) and the polynomial identities forward = base*inner*tool and '
                  '"pose handed to the inner solver composes back to the request" for every rigid wrapper transform (Euler-parametrised, onto SE(3)). Holding for every inner robot, it composes to any nesting depth.', design='6/C09'),
 'C16': dict(text='All methods of Parallelogram incl. the for_each closures executed from MIR around an oracle inner robot, for (driven,coupled) index pairs (8 in quick, all 30 in thorough) and a free scaling in [-2,2]: '
                  'one inner call of the same name, arguments unchanged except coupled -= scaling*driven, answers returned with coupled += scaling*driven, and the round trip through the forward adjustment is the identity.', design='6/C16'),
})
CHECKS.update({
 'C01': dict(text='Part A: inverse_intern and inverse_intern_5_dof executed WHOLE from MIR (forward and angle_to as oracles): every pushed solution carries a guard that implies the 1e-6/1e-6 cross-check '
                  'of THAT vector against the requested pose (with C03 this is the independent-FK clause), is finite and in [-pi,pi]; no panic/unwinding obligation is reachable, also for non-finite pose components. '
                  'Part B: the four public entry points executed from MIR over kernel summaries: every returned vector is a kernel answer (mod 2pi) or the singular candidate gated by compare_poses against the UNSHIFTED pose. '
                  'Proofs use a sound linear abstraction (non-linear subterms -> fresh constants); anything not proved goes to a native search and only a natively reproduced failure is a VIOLATION.', design='6/C01'),
 'C04': dict(text='normalize_near leaf contract (LRA, all reals in range), sort_by_closeness comparator closures through the sort model (result ordered by the DOCUMENTED cost for no limits / weight 0 / 1 / symbolic), '
                  'and the composition inside inverse_continuing(_5dof): every joint of every element normalised against the effective previous, whole list sorted against it, all kernel answers kept. One-step form only; dense trajectories not claimed.', design='6/C04'),
 'C06': dict(text='5-DOF kernel dominance (position cross-check, J1..J5 finite/normalised, J6 term-identical to the caller value); entry points return the caller J6; a dof=5 robot answers inverse (finite J6 = 0) and '
                  'inverse_continuing through the 5-DOF kernel, normalised/sorted/filtered. Tool-axis equality and presence of the originating J1..J5 are judged only natively (replay battery).', design='6/C06'),
 'C08': dict(text='inverse/inverse_5dof (dof 6 and 5) executed from MIR over kernel summaries with symbolic limits: returned <=> compliant; continuation entry points: the result is the constraint filter applied once to the '
                  'complete sorted list and the singular candidate is gated by constraints_compliant; constraints() of Tool/Base/Frame/Parallelogram returns the inner limits. Filter semantics itself is C07.', design='6/C08'),
})
CHECKS['C05']['text'] = CHECKS['C05']['text'].replace('is covered structurally by the continuation harness when built', 'is decided in the continuation harness (singular candidate: J4 and J6 move by the same amount; candidate gated by the unshifted-pose check)')
CHECKS.update({
 'C17': dict(text='Frame::frame executed from MIR on the images of an arbitrary non-collinear triple (onto parametrisation: origin, Euler frame, l>0, u, w>0) under an arbitrary rigid motion (Euler + translation): '
                  'norms are normalised modulo the unit-circle relations so the Ok path is the only path, and the 12 result components equal the motion as polynomial identities; exactly collinear source/target are never accepted, '
                  'a pair distance off by more than 5 mm gives NotIsometry; translation() and forward_transformed() (oracle inner robot) checked by term identities.', design='6/C17'),
})
CHECKS.update({
 'C10': dict(text='detect_collisions_with_skips / check_required / min_distance executed from MIR for tool/base present or absent, 0..2 environment objects and an ARBITRARY safety table (hash map as an oracle: symbolic presence and value per key): '
                  'every relevant pair of the property text is handed to the kernel, with the meshes and poses of those two bodies, whenever it is not marked never-colliding in either key order, and nothing else is; CollisionTask::collides and '
                  'process_collision_tasks over parry3d/rayon oracles: per-pair verdict (touch-only / distance <= r / never), (min,max) reporting, all / first / no-check modes for every choice rayon may make; collides / collision_details / near wiring. '
                  'The pre-filter call must place the loosened box with the pose of the body it encloses (or pose both in that body\'s frame). Everything inside parry3d, incl. geometric soundness of a well-placed loosened-box pre-filter, is an explicit assumption; a native battery compares verdicts at a positive safety distance with parry\'s own distance on random placements.', design='6/C10'),
 'C11': dict(text='All 8 trait methods, 4 body delegations, both constructors and positioned_robot of KinematicsWithShape executed from MIR around an oracle kinematic stack and an oracle collision verdict: each inverse entry point returns entry k '
                  'iff answer k of the stack is not reported colliding (judged against the same stack), order preserved; constructors build Tool{Base{OPW+limits}} with the given transforms and place base/tool meshes accordingly.', design='6/C11'),
 'C14': dict(text='non_colliding_offsets and its closure executed from MIR (robot, limits verdict and collision pass as oracles): the 12 candidates are initial[j -> from_j|to_j], each offered iff within limits and its collision pass reports nothing, '
                  'the pass uses the link poses of that candidate, the own safety table, first-collision mode and marks links below j unmoved; and with that skip set the task list still contains every relevant pair involving a moved body (shared with C10).', design='6/C14'),
})
CHECKS.update({
 'C15': dict(text='compute_jacobian executed from its generic MIR with the robot and scaled_axis as oracles: column i is exactly the finite difference of the robot forward() at q and q+eps*e_i (translation, and log map of R_i R^-1); Jacobian::new passes robot, joints and the given step on unchanged; '
                  'the C03 terms of the OPW forward() are differentiated symbolically and the solver decides d t/d joint_i = sigma_i z_i x (t - o_i) and dR/d joint_i R^T = skew(sigma_i z_i) with z_i, o_i from forward_with_joint_poses (all parameters, offsets, sign symbols free); '
                  'torques = J^T F, velocities = try_inverse(J) w, isometry/vector entry points agree. The O(eps) remainder between the two is Taylor (argued, not solved).', design='6/C15'),
})
CHECKS.update({
 'C13': dict(text='Inductive step, not call histories: Tree::extend executed from its generic MIR (N := f64) from an ARBITRARY tree of <= 3 nodes satisfying the invariant (every parent shape, symbolic coordinates, kd-tree nearest = any node, '
                  'is_free/sampler/stop flag as oracles) - afterwards the invariant holds again (new node free, finite, within a step of its parent, inside the limit box, parent index below its own), Trapped leaves the tree unchanged, Reached => within a step of the target; '
                  'connect, get_until_root (all shapes) and the path assembly / cancellation / tree alternation of dual_rrt_connect over those contracts. Termination and completeness are outside.', design='6/C13'),
})
CHECKS.update({
 'C02': dict(text='forward() and then inverse_intern() ON ITS OUTPUT are executed from MIR with all parameters and offsets free and the joint angles as algebraic atoms; atan2/acos/sqrt are resolved exactly in the function field '
                  '(a root is replaced by a candidate only when candidate^2 - radicand normalises to zero; its sign is the configuration-class assumption). For each class of (shoulder, elbow, wrist) signs (4 in quick, all 8 in thorough) the solver decides that, '
                  'for the branch serving that class, sin and cos of every pre-normalisation angle equal those of the generating joint (numerators normalise to the zero polynomial) - completeness for every parameter set with c2>0 and non-zero reach radii. '
                  'Closure: table rows i+4 are (theta4+pi, -theta5, theta6-pi) of rows i and forward() is invariant under that map.', design='6/C02'),
})
CHECKS.update({
 'C19': dict(text='TREE LEVEL ONLY. from_yaml_file (after the loader), read_offsets, read_sign_corrections, parse_degrees executed from MIR on a symbolic yaml_rust2::Yaml tree of the documented shape: every geometric scalar independently Integer or Real '
                  '(symbolic type flag and value), dof at the top level / nested / absent, arrays of 5 or 6, offsets as Integer | Real | deg(x) | x: Ok(p) with exactly those values (deg -> x*pi/180, padding, J6 sign 0 for dof 5); malformed trees (missing field, wrong lengths, '
                  'non-numeric offset, empty document list) give Err and no panic obligation is reachable; the to_yaml format template (read from the MIR constant) puts dof at the top level. '
                  'NOT covered (no engine here encodes them): the YAML scanner, float printing precision, arbitrary byte strings.', design='6/C19',
             note='yaml_rust2 accessors (Index<&str>, as_f64 = Real only, as_i64 = Integer only, as_vec) and str::parse are small trusted models; the text level of the property is outside the claim and is only exercised natively by the replay battery (real YAML text through the real reader, to_yaml round trips).'),
})
CHECKS.update({
 'C12': dict(text='Assume/guarantee composition over the real MIR of the planner: add_intermediate_poses / with_intermediate_poses / interpolate (every added pose strictly inside the straight segment at fraction i/steps, given poses in order with LAND/TRACE/PARK), '
                  'step_adaptive_linear_transition executed with its recursion (depth <= 2, 3 thorough) over an arbitrary kinematic stack (each element an answer for a pose ON the segment, continued from the previous element, within max_transition_cost; last answers `to`), '
                  'probe_strategy over summaries (trace = ONBOARDING relocation from the given start + landing solution + steps in order; flags mark exactly the waypoints they describe; interpolated waypoints absent when not requested; '
                  'success only if every waypoint solved without the robot shape was collision-checked; RRT closing towards collision-aware solutions), plan_rrt wiring (node accepted only if collision free AND within limits) and plan '
                  '(success <=> some landing solution can be followed through, for ANY hit rayon may return). Bounded: <= 4 interpolated poses per segment, <= 3 stroke poses, scripted outcome kinds with symbolic values.', design='10.8',
             note='Lower layers are assumptions discharged by C01/C08/C11/C13; slerp is an oracle, so only the translational part of "on the straight segment" is decided; default transition coefficients; f64 read as reals. A native battery runs the real planner on 8 fixed and 60 seeded random scenes and checks every clause on every returned path.'),
})
CHECKS.update({
 'C20': dict(text='JOINT-DATA LEVEL ONLY. populate_opw_parameters executed from MIR on a finite map of joint data whose origins are GENERATED from symbolic OPW parameters in each documented layout (c2 along z or x, b on joint 3 zero or not, c3 on joint 4 or 5; '
                  'all parameters non-zero): the seven parameters, the axis signs, the limits and dof = 6 come back, no error is reachable; a missing joint gives an error value, never a panic. get_axis_sign / get_xyz_from_origin / get_limits / parse_angle '
                  'executed on attribute texts given by shape (token lists, plain number, ${radians(d)}, unparsable, missing): sign of the single non-zero axis component, the three numbers in order, (lower, upper) with degrees converted, errors otherwise. '
                  'convert_to_map: one entry per name, identical second copy accepted, conflicting one rejected, result independent of order. URDFParameters::{parameters, constraints, to_robot}: values reach the solver unchanged, limits through Constraints::new (from == to = unconstrained is C07). '
                  'NOT decided by the solver: XML parsing and traversal (sxd_document), the regexes (joint-name simplification, the ${radians()} pattern), string splitting, 5-DOF detection from names.', design='10.9',
             note='The XML/regex/string layer is outside the MIR dump and the real-arithmetic encoder; those clauses (declaration order, nesting, name decoration, duplicate copies, limit syntaxes, malformed XML) are exercised only by the native battery: '
                  '179 generated URDF texts (all layouts, 6 name decorations, permutations, nesting depths, identical / conflicting copies, each joint missing, truncated XML) through the real from_urdf. Degenerate parameter values (a2 = 0 with c3 on joint 4; c2 = 0 with b != 0) make the layouts indistinguishable and are outside the claim.'),
})
PENDING = {}
NA = {}
def main():
    props = [json.loads(l) for l in open(os.path.join(VERIF, 'properties.jsonl'))]
    checks = []
    for pid, c in CHECKS.items():
        checks.append(dict(property_id=pid, quick_cmd=f'python3-vt -m checks.{pid.lower()} --tier quick', thorough_cmd=f'python3-vt -m checks.{pid.lower()} --tier thorough',
                           evidence_file=f'/verif/evidence/{pid}.json', replay_cmd_template='python3-vt -m checks.replay {path}', engine='mirsmt',
                           level_claimed=dict(category='model_checking', text=c['text'], design_ref=c.get('design', '')),
                           level_note=c.get('note', NOTE), technique=c.get('technique', TECH)))
    na = []
    for p in props:
        if p['id'] in CHECKS: continue
        na.append(dict(property_id=p['id'], reason=NA.get(p['id'], 'check not built yet in this round (planned, see DESIGN.md section 6); not claimed until its harness runs')))
    m = dict(version=1, setup_cmd='python3-vt -m checks.setup',
             hooks=dict(guard='rs_opw_kinematics_verif', enable="RUSTFLAGS='--cfg rs_opw_kinematics_verif' (set by checks/common.py when it builds /verif/replay against /repo)",
                        baseline_off_cmd='cd /repo && cargo test --workspace --no-fail-fast --offline', source_commits=['6d33efb'], add_only=True),
             engines=[dict(name='mirsmt', path='/verif/mirsmt', serves_properties=sorted(CHECKS), kind_free_text='symbolic executor for rustc MIR (-Zunpretty=mir of the current tree) with state merging, producing real-arithmetic SMT obligations for z3'),
                      dict(name='replay', path='/verif/replay', serves_properties=sorted(CHECKS), kind_free_text='Rust binary linking the current /repo tree; re-runs solver counterexamples natively against oracles written from the property text')],
             checks=checks, not_applicable=na,
             notes='Exit codes: 0 property held within the stated bounds; 1 VIOLATION (natively reproduced counterexample); 2 inconclusive (solver unknown, unmodelled code, non-reproducing counterexample) - never reported as a violation.')
    json.dump(m, open(os.path.join(VERIF, 'MANIFEST.json'), 'w'), indent=1)
    print('wrote MANIFEST.json with', len(checks), 'checks,', len(na), 'not applicable')
if __name__ == '__main__': main()
