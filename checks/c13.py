"""C13 — a returned RRT path joins start to goal through collision-free configurations.

Inductive-step form (no call histories are explored):
  Inv(tree): node 0 is the root (start or goal), every other node i has a parent p_i < i, was answered `true` by is_free, lies within
             extend_length of its parent, and lies inside the (non-wrapping) limit box.
  extend     from an ARBITRARY tree of <= 3 nodes satisfying Inv (2-D, symbolic coordinates, every parent shape), arbitrary target inside the box,
             kd-tree `nearest` = ANY existing node: Inv holds afterwards; Trapped leaves the tree unchanged; Reached => new node within a step of the target.
  connect    repeats extend with the same arguments until it is Trapped or Reached, and reports that outcome.
  get_until_root  returns the ancestors of a node from its parent up to the root (the node itself excluded), for every tree shape of <= 4 nodes.
  dual_rrt_connect (extend/connect/get_until_root replaced by their contracts): a raised stop flag at an iteration head returns Err before any sampling;
             on success the path is reverse(ancestors in the start tree) ++ ancestors in the goal tree (whichever tree was extended), so it begins with start,
             ends with goal, consists of tree nodes, and consecutive nodes are <= 3 steps apart (the two junction nodes are omitted).
  plan_path / convert_result / plan_rrt wiring (a node is accepted only if collision free AND within the limits, samples = constraints().random_angles(), order/length preserved)
             is decided in checks/c12.py (check_rrt_wiring), where the planner that relies on it is composed; here it is exercised by the native battery only.
Outside the claim: termination / probabilistic completeness; kd-tree internals; a flag raised inside an iteration acts at the next head.
"""
import itertools
import z3
from .common import *
from mirsmt.oracles import install_rrt

DIM = 2
LO, HI = z3.Real('lim_lo'), z3.Real('lim_hi')

def rfn(eng, name):
    c = [n for n in eng.bodies if n.startswith('rrt_to::') and n.endswith('::' + name)] if name != 'dual_rrt_connect' else ['rrt_to::dual_rrt_connect']
    if len(c) != 1: raise Inconclusive(f'rrt_to::{name}: {len(c)} candidates')
    return eng.bodies[c[0]]

def make_tree(eng, st, parents, tag, name='start'):
    """tree with concrete shape `parents` (parents[0] = None) and symbolic coordinates; returns (value, coords)"""
    coords = [[z3.Real(f'{tag}n{i}_{k}') for k in range(DIM)] for i in range(len(parents))]
    nodes = [Agg([NONE() if p is None else Some(p), VecV.dense([F(x) for x in coords[i]])], 'rrt_to::Node') for i, p in enumerate(parents)]
    return Agg([Opaque('kdtree'), VecV.dense(nodes), StrV(name)], 'rrt_to::Tree'), coords

def dist2(a, b): return sum((x - y) * (x - y) for x, y in zip(a, b))
def in_box(p): return z3.And([z3.And(x >= LO, x <= HI) for x in p])

def shapes(n):
    if n == 1: return [[None]]
    out = []
    for ps in itertools.product(*[range(i) for i in range(1, n)]): out.append([None] + list(ps))
    return out

def check_extend(ck, parents):
    eng = ck.engine(unwind=6); rec = {}; install_rrt(eng, rec, dim=DIM)
    st = eng.new_state(); L = z3.Real('step'); st.assume(z3.And(L > 0, LO < HI))
    tree, coords = make_tree(eng, st, parents, 't')
    n = len(parents)
    for i, p in enumerate(parents):
        st.assume(in_box(coords[i]))
        if p is not None: st.assume(dist2(coords[i], coords[p]) <= L * L)
    tgt = [z3.Real(f'target_{k}') for k in range(DIM)]; st.assume(in_box(tgt))
    rt = eng.tmp_ref(st, 0, tree)
    from mirsmt import values as _v
    _v.CONFIG['merge_vec_lengths'] = False      # states that added a node are kept apart from the Trapped ones
    try: res = eng.call_body(st, rfn(eng, 'extend'), [rt, eng.tmp_ref(st, 0, VecV.dense([F(x) for x in tgt])), F(L), eng.tmp_ref(st, 0, Opaque('is_free'))])
    finally: _v.CONFIG['merge_vec_lengths'] = True
    label = f'extend[tree shape {parents}]: '
    case = lambda m=None: dict(clause='extend', shape=[-1 if p is None else p for p in parents])
    ck.states += len(res)
    if not res: ck.decide(label + 'returns', eng, [], z3.BoolVal(True), case, nomodel_case=case)
    for s1, out in res:
        ctx = list(s1.pc); t2 = eng.read_ref(s1, rt); verts = t2.items[1]
        disc = out.disc
        vs = list(verts.items)
        if isz(disc):
            # Reached and Advanced states were merged (same tree shape): split on the status where it matters
            ck.decide(label + 'a state that added a node is not reported Trapped', eng, ctx + [disc == 2], z3.BoolVal(len(vs) != n), case, nomodel_case=case)
            reached_ctx = [disc == 0]
        else: reached_ctx = None
        if not isz(disc) and disc == 2:   # Trapped
            ok = len(vs) == n and all(same(vs[i], tree.items[1].items[i]) for i in range(n))
            ck.decide(label + 'Trapped leaves the tree unchanged', eng, ctx, z3.BoolVal(not ok), case, nomodel_case=case)
            continue
        ok = len(vs) == n + 1 and all(same(vs[i], tree.items[1].items[i]) for i in range(n)) and not isz(out.items[0]) and int(out.items[0]) == n
        ck.decide(label + 'Advanced/Reached adds exactly one node, reports its index, leaves the others alone', eng, ctx, z3.BoolVal(not ok), case, nomodel_case=case)
        if not ok: continue
        new = vs[n]; par = new.items[0]
        okp = isinstance(par, Enum) and not isz(par.disc) and par.disc == 1 and not isz(par.items[0]) and 0 <= int(par.items[0]) < n
        ck.decide(label + 'the new node hangs under an existing node (parent index < own index)', eng, ctx, z3.BoolVal(not okp), case, nomodel_case=case)
        if not okp: continue
        p = int(par.items[0]); q = [x.v for x in new.items[1].items]
        fr_ = [b for qq, b in rec['is_free'] if all(same(x, y) for x, y in zip(qq.items, new.items[1].items))]
        ck.decide(label + 'the new node was reported free', eng, ctx, z3.Not(z3.Or(fr_)) if fr_ else z3.BoolVal(True), case, nomodel_case=case)
        ck.decide(label + 'the new node is finite', eng, ctx, z3.Or([zb(x.poison()) for x in new.items[1].items]), case, nomodel_case=case)
        ck.decide(label + 'the new node is within one step of its parent', eng, ctx, dist2(q, coords[p]) > L * L, case, nomodel_case=case)
        # per coordinate, on the slice of the path condition that matters (box bounds, step > 0, the branch condition on the distance): the
        # definitional constraint of the square root is not needed for a convex-combination argument
        small = [c for c in ctx if eng.size_of(c) <= 120]
        for k in range(DIM):
            res_, _m = ck.query(label + f'the new node is inside the limit box, coordinate {k} [sliced]', None, *small, z3.Or(q[k] < LO, q[k] > HI))
            if res_ != 'unsat':
                ck.decide(label + f'the new node is inside the limit box, coordinate {k}', eng, ctx, z3.Or(q[k] < LO, q[k] > HI), case, nomodel_case=case)
        if reached_ctx is not None or disc == 0: ck.decide(label + 'Reached => the new node is within a step of the target', eng, ctx + (reached_ctx or []), dist2(q, tgt) >= L * L, case, nomodel_case=case)
    for ob in eng.obligations:
        if 'extend_length' in ob['msg'] or 'assertion failed' in ob['msg']: continue     # assert!(extend_length > 0): a precondition of the planner
        ck.decide(label + f"{ob['kind']} unreachable: {ob['msg'][:40]}", eng, [ob['cond']], z3.BoolVal(True), case, nomodel_case=case)

def check_get_until_root(ck, parents):
    eng = ck.engine(unwind=8); rec = {}; install_rrt(eng, rec, dim=DIM); st = eng.new_state()
    tree, coords = make_tree(eng, st, parents, 't')
    for idx in range(len(parents)):
        s0 = st.clone()
        res = eng.call_body(s0, rfn(eng, 'get_until_root'), [eng.tmp_ref(s0, 0, tree), idx])
        want = []; cur = idx
        while parents[cur] is not None: cur = parents[cur]; want.append(cur)
        ok = len(res) == 1 and isinstance(res[0][1], VecV) and res[0][1].is_dense() and len(res[0][1].items) == len(want) and all(same(v, tree.items[1].items[w].items[1]) for v, w in zip(res[0][1].items, want))
        ck.decide(f'get_until_root[shape {parents}, node {idx}]: ancestors from the parent up to the root, the node itself excluded', eng, [], z3.BoolVal(not ok), lambda m=None: dict(clause='get_until_root'), nomodel_case=lambda: dict(clause='get_until_root')); ck.states += 1

def check_connect(ck):
    for seq in ((2,), (0,), (1, 2), (1, 1, 0)):
        eng = ck.engine(unwind=6); rec = {}; install_rrt(eng, rec, dim=DIM); st = eng.new_state()
        calls = []
        def ext(e, st_, fr, f, a):
            k = len(calls); calls.append([e.deref(st_, x) if isinstance(x, RefV) else x for x in a[1:3]])
            d = seq[k] if k < len(seq) else 2
            return [(st_, Enum(d, [] if d == 2 else [7 + k], 'ExtendStatus'))]
        eng.overrides[rfn(eng, 'extend').name] = ext
        tree, _ = make_tree(eng, st, [None], 't'); tgt = VecV.dense([F(z3.Real(f'c{k}')) for k in range(DIM)]); L = F(z3.Real('step'))
        res = eng.call_body(st, rfn(eng, 'connect'), [eng.tmp_ref(st, 0, tree), eng.tmp_ref(st, 0, tgt), L, eng.tmp_ref(st, 0, Opaque('is_free'))])
        last = seq[-1]
        ok = len(res) == 1 and not isz(res[0][1].disc) and res[0][1].disc == last and len(calls) == len(seq) and all(same(c[0], tgt) and same(c[1], L) for c in calls) and (last == 2 or int(res[0][1].items[0]) == 7 + len(seq) - 1)
        ck.decide(f'connect[extend answers {seq}]: repeats extend(same target, same step) while Advanced and reports the final Trapped/Reached(index)', eng, [], z3.BoolVal(not ok), lambda m=None: dict(clause='connect'), nomodel_case=lambda: dict(clause='connect')); ck.states += 1

def check_dual(ck):
    """dual_rrt_connect over the contracts of extend / connect / get_until_root; two iterations"""
    for script in ([('adv', 'reach')], [('trap', None), ('adv', 'reach')], [('adv', 'trap'), ('reach', 'reach')]):
        eng = ck.engine(unwind=6); rec = {}; install_rrt(eng, rec, dim=DIM); st = eng.new_state()
        ext_calls, con_calls, gur_calls = [], [], []
        def ext(e, st_, fr, f, a):
            k = len(ext_calls); t = e.deref(st_, a[0]); ext_calls.append((t.items[2].s, e.deref(st_, a[1])))
            kind = script[k][0] if k < len(script) else 'trap'
            if kind == 'trap': return [(st_, Enum(2, [], 'ExtendStatus'))]
            # contract of extend: one node appended
            nv = VecV.dense(list(t.items[1].items) + [Agg([Some(0), VecV.dense([F(z3.Real(f'new{k}_{i}')) for i in range(DIM)])], 'rrt_to::Node')])
            e.write_ref(st_, a[0], Agg([t.items[0], nv, t.items[2]], t.tag))
            return [(st_, Enum(1 if kind == 'adv' else 0, [len(nv.items) - 1], 'ExtendStatus'))]
        def con(e, st_, fr, f, a):
            k = len(con_calls); t = e.deref(st_, a[0]); con_calls.append((t.items[2].s, e.deref(st_, a[1])))
            kind = script[k][1] if k < len(script) else 'trap'
            return [(st_, Enum(2, [], 'ExtendStatus') if kind == 'trap' else Enum(0, [40 + k], 'ExtendStatus'))]
        def gur(e, st_, fr, f, a):
            t = e.deref(st_, a[0]); nm = t.items[2].s; gur_calls.append((nm, a[1]))
            return [(st_, VecV.dense([Opaque('node', f'{nm}_mid'), Opaque('node', f'{nm}_root')]))]
        eng.overrides[rfn(eng, 'extend').name] = ext; eng.overrides[rfn(eng, 'connect').name] = con; eng.overrides[rfn(eng, 'get_until_root').name] = gur
        start = VecV.dense([F(z3.Real(f's{k}')) for k in range(DIM)]); goal = VecV.dense([F(z3.Real(f'g{k}')) for k in range(DIM)])
        res = eng.call_body(st, rfn(eng, 'dual_rrt_connect'), [eng.tmp_ref(st, 0, start), eng.tmp_ref(st, 0, goal), Opaque('is_free'), Opaque('sampler'), F(z3.Real('step')), len(script), eng.tmp_ref(st, 0, Opaque('stopflag'))])
        label = f'dual_rrt_connect[script {script}]: '
        case = lambda m=None: dict(clause='dual')
        ck.states += len(res)
        n_ok = 0
        for s1, out in res:
            ctx = list(s1.pc)
            if isz(out.disc): raise Inconclusive('result kind not concrete per state')
            stops = rec['stop']
            if out.disc == 0:
                n_ok += 1
                path = out.items[0]
                names = [getattr(x, 'name', None) for x in path.items]
                ok = names == ['start_root', 'start_mid', 'goal_mid', 'goal_root']
                ck.decide(label + 'success: path = start-tree ancestors reversed, then goal-tree ancestors (begins at start, ends at goal)', eng, ctx, z3.BoolVal(not ok), case, nomodel_case=case)
                ck.decide(label + 'success only while the stop flag read at every iteration head was false', eng, ctx, z3.Or(stops[:len(ext_calls)]) if stops else z3.BoolVal(False), case, nomodel_case=case)
            else:
                pass
        want_ok = any(a_ in ('adv', 'reach') and b_ == 'reach' for a_, b_ in script)
        ck.decide(label + 'a connection reported by both trees yields a path when the flag stays down', eng, [], z3.BoolVal(want_ok and n_ok == 0), case, nomodel_case=case)
        # cancellation: one flag read per iteration head, before the sample of that iteration
        ok = len(rec['stop']) >= 1 and len(rec['samples']) <= len(rec['stop'])
        ck.decide(label + 'the stop flag is read at every iteration head, before sampling', eng, [], z3.BoolVal(not ok), case, nomodel_case=case)
        for s1, out in res:
            if out.disc == 1 and rec['stop']:
                pass
        # trees alternate
        alt = [nm for nm, _ in ext_calls]
        ok = all(alt[i] != alt[i + 1] for i in range(len(alt) - 1)) and (not alt or alt[0] == 'start')
        ck.decide(label + 'the two trees take turns (start tree first); connect is tried from the other tree towards the new node', eng, [], z3.BoolVal(not ok or any(c[0] == e_[0] for c, e_ in zip(con_calls, [x for x, s_ in zip(ext_calls, script) if s_[0] != 'trap']))), case, nomodel_case=case)
    # raised flag: error before any sampling
    eng = ck.engine(unwind=6); rec = {}; install_rrt(eng, rec, dim=DIM); st = eng.new_state()
    eng.overrides[rfn(eng, 'extend').name] = lambda e, st_, fr, f, a: [(st_, Enum(2, [], 'ExtendStatus'))]
    start = VecV.dense([F(z3.Real(f's{k}')) for k in range(DIM)]); goal = VecV.dense([F(z3.Real(f'g{k}')) for k in range(DIM)])
    res = eng.call_body(st, rfn(eng, 'dual_rrt_connect'), [eng.tmp_ref(st, 0, start), eng.tmp_ref(st, 0, goal), Opaque('is_free'), Opaque('sampler'), F(z3.Real('step')), 2, eng.tmp_ref(st, 0, Opaque('stopflag'))])
    case = lambda m=None: dict(clause='cancel')
    for s1, out in res:
        if rec['stop']:
            ck.decide('dual_rrt_connect: flag raised at the first iteration head => Err', eng, list(s1.pc) + [rec['stop'][0]], z3.BoolVal(out.disc == 0) if not isz(out.disc) else out.disc == 0, case, nomodel_case=case)
    ck.decide('dual_rrt_connect: the flag is consulted', eng, [], z3.BoolVal(not rec['stop']), case, nomodel_case=case); ck.states += len(res)

def run(ck):
    ck.bounds = dict(dimension=2, tree='<= 3 nodes before the step, every parent shape', connect='<= 3 extend calls', iterations='<= 2 of the main loop', box='lo < hi symbolic')
    ck.assumptions += ['real arithmetic', 'kd-tree nearest returns SOME existing node (nothing in the property depends on nearness)', 'is_free, the sampler and the stop flag are oracles; is_free is consistent with itself',
                       'inductive argument: roots satisfy Inv (start/goal are collision-free by premise), every extend preserves it, so every node of a returned path does']
    for n in (1, 2, 3):
        for sh in shapes(n): check_extend(ck, sh)
    for sh in shapes(3) + (shapes(4) if ck.tier == 'thorough' else [[None, 0, 1, 2]]): check_get_until_root(ck, sh)
    check_connect(ck)
    check_dual(ck)
    # how RRTPlanner hands its settings to dual_rrt_connect (acceptance test, sampler, start/goal, the CONFIGURED step and try budget, the stop flag): shared with C12
    from . import c12
    c12.check_rrt_wiring(ck, case=lambda m=None: dict(clause='extend'))

if __name__ == '__main__':
    main(run, 'C13')
