"""C09 — tool, base and frame wrappers compose transforms consistently in both directions.

Encoded (real MIR): all 8 Kinematics methods of tool::Tool, tool::Base, frame::Frame; LinearAxis::forward, Gantry::forward.
The wrapped robot is an ORACLE (arbitrary implementation of the trait: fresh symbols for every answer, every call logged),
so each obligation holds for every inner robot, hence for every nesting (a stack is a composition of these steps).
The wrapper transform is an arbitrary rigid motion (Euler-parametrised, onto SO(3)), the requested pose 12 free reals.
Obligations: delegation matrix (entry point X calls inner X exactly once, j6/previous passed unchanged, answer list returned
unchanged) and polynomial identities (forward = base*inner*tool; the pose handed to the inner solver composes back to the request).
"""
import z3
from .common import *
from mirsmt import poly
from mirsmt.oracles import install_dynkin, DynKin, euler_iso, fresh_iso
from mirsmt.models_na import Mat, Iso

WRAPPERS = {'tool': ('tool::Tool', 'tool::<impl at', 'Tool', 'right'), 'base': ('tool::Base', 'tool::<impl at', 'Base', 'left'),
            'frame': ('frame::Frame', 'frame::<impl at', 'Frame', 'right')}
INVERSES = {'inverse': (), 'inverse_continuing': ('previous',), 'inverse_5dof': ('j6',), 'inverse_continuing_5dof': ('previous',)}

def method_body(eng, ty, meth):
    for k, v in eng.alias.items():
        if isinstance(k, tuple) and k[1] == 'Kinematics' and k[2] == meth and k[0].split('::')[-1] == ty: return eng.bodies[v]
    raise Inconclusive(f'{ty}::{meth} not found')

def free_pose(tag):
    return Iso(Mat(3, 3, [F(z3.Real(f'{tag}_r{i}{k}')) for i in range(3) for k in range(3)], 'rot'), Mat(3, 1, [F(z3.Real(f'{tag}_t{i}')) for i in range(3)]))

def iso_terms(I): return [x.v for x in I.R.d] + [x.v for x in I.t.d]

def run(ck):
    ck.bounds = dict(inner_robot='arbitrary (oracle)', wrapper_transform='all of SE(3) via Rz Ry Rz Euler angles', request='12 free reals', nesting='by composition of single-wrapper obligations')
    ck.assumptions += ['real arithmetic', 'nalgebra isometries modelled as (R,t) with inverse = (R^T, -R^T t)', 'the inner robot satisfies its own contract (C01-C08); this check lifts it through one wrapper']
    import math
    def euler_case(m, prs, tv):
        return [math.atan2(model_float(m, s_), model_float(m, c_)) for s_, c_ in prs], [model_float(m, t) for t in tv]
    for wname, (sty, _, ty, side) in WRAPPERS.items():
        for meth in ['forward', 'forward_with_joint_poses', 'kinematic_singularity', 'constraints'] + list(INVERSES):
            eng = ck.engine(); install_dynkin(eng)
            st = eng.new_state()
            cons_cell = eng.tmp_ref(st, 0, Opaque('constraints-of-inner'))
            inner = DynKin('inner', nsol=2, cons_ref=cons_cell)
            X, prs, tv = euler_iso(eng, 'X')
            w = Agg([BoxV([inner]), X], sty)
            rw = eng.tmp_ref(st, 0, w)
            tcp = free_pose('tcp'); joints = Agg([F(z3.Real(f'q{i}')) for i in range(6)]); prev = Agg([F(z3.Real(f'prev{i}')) for i in range(6)]); j6 = F(z3.Real('j6arg'))
            if meth in ('forward', 'forward_with_joint_poses', 'kinematic_singularity'): args = [rw, eng.tmp_ref(st, 0, joints)]
            elif meth == 'constraints': args = [rw]
            elif meth == 'inverse': args = [rw, eng.tmp_ref(st, 0, tcp)]
            elif meth == 'inverse_5dof': args = [rw, eng.tmp_ref(st, 0, tcp), j6]
            else: args = [rw, eng.tmp_ref(st, 0, tcp), eng.tmp_ref(st, 0, prev)]
            res = eng.call_body(st, method_body(eng, ty, meth), args)
            if len(res) != 1: raise Inconclusive(f'{ty}::{meth} left {len(res)} states')
            st, out = res[0]; ck.states += 1
            label = f'{ty}::{meth}: '
            Rg = poly.ring_for(eng, extra_pairs=prs)
            def case(m, extra=None):
                ang, tt = euler_case(m, prs, tv)
                c = dict(wrapper=wname, method=meth, euler=ang, shift=tt); c.update(extra or {}); return c
            def identity(name, lhs, rhs):
                try:
                    p = poly.from_z3(Rg, lhs) - poly.from_z3(Rg, rhs); goal = p.to_z3() != 0; nm = f'{name} [normalised, residual terms={p.nterms()}]'
                except poly.NotPolynomial:
                    goal = lhs != rhs; nm = name + ' [raw]'
                ck.decide(label + nm, eng, [st.pcz()], goal, case, what=label + name + ' fails')
            def structural(name, ok):
                """an obligation whose truth is fixed by the executed MIR (call identity, pass-through): sent to the solver as a constant"""
                r = ck.decide(label + name, eng, [st.pcz()], z3.BoolVal(not ok), case, what=label + name + ' fails')
            calls = [r for g, r in st.log if r['obj'] == 'inner']
            guards_true = all(g is True for g, r in st.log)
            structural(f'exactly one inner call, to {meth}', guards_true and len(calls) == 1 and calls[0]['method'] == meth)
            if not calls: continue
            call = calls[0]
            if meth in INVERSES:
                structural('inner answer list returned unchanged', same(out, call['result']))
                P = call['args'][0]
                if isinstance(P, Iso):
                    back = eng.na['iso_mul'](P, X) if side == 'right' else eng.na['iso_mul'](X, P)
                    for i, (l, r) in enumerate(zip(iso_terms(back), iso_terms(tcp))):
                        identity(f"inner pose composes back to the request [{i}]", l, r)
                else: structural('inner call receives a pose', False)
                if INVERSES[meth]:
                    want = prev if INVERSES[meth][0] == 'previous' else j6
                    structural(f'{INVERSES[meth][0]} passed through unchanged', len(call['args']) == 2 and same(call['args'][1], want))
            elif meth == 'forward':
                structural('inner forward receives the joints unchanged', same(call['args'][0], joints))
                Fi = call['result']; want = eng.na['iso_mul'](Fi, X) if side == 'right' else eng.na['iso_mul'](X, Fi)
                if isinstance(out, Iso):
                    for i, (l, r) in enumerate(zip(iso_terms(out), iso_terms(want))): identity(f'forward == {"inner*X" if side == "right" else "X*inner"} [{i}]', l, r)
                else: structural('forward returns a pose', False)
            elif meth == 'forward_with_joint_poses':
                structural('inner link poses computed for the joints unchanged', same(call['args'][0], joints))
                for li in range(6):
                    Pi = call['result'].items[li]
                    if wname == 'tool': want = Pi
                    elif wname == 'base': want = eng.na['iso_mul'](X, Pi)
                    else: want = eng.na['iso_mul'](Pi, X) if li == 5 else Pi
                    for i, (l, r) in enumerate(zip(iso_terms(out.items[li]), iso_terms(want))): identity(f'link pose {li} [{i}]', l, r)
            else:
                structural('answer of the inner robot returned unchanged', same(out, call['result']))
                if meth == 'kinematic_singularity': structural('joints passed unchanged', same(call['args'][0], joints))
    # LinearAxis / Gantry forward
    for nm in ('LinearAxis', 'Gantry'):
        for axis in ((0, 1, 2) if nm == 'LinearAxis' else (None,)):
            eng = ck.engine(); install_dynkin(eng)
            st = eng.new_state(); inner = DynKin('inner'); X, prs, tv = euler_iso(eng, 'X')
            joints = Agg([F(z3.Real(f'q{i}')) for i in range(6)]); d = z3.Real('dist'); dv = [z3.Real(f'g{i}') for i in range(3)]
            body = eng.bodies[eng.find(f'::forward', f'tool::<impl at src/tool.rs:{_impl_line(eng, nm)}')]
            if nm == 'LinearAxis':
                w = Agg([BoxV([inner]), axis, X], 'tool::LinearAxis'); args = [eng.tmp_ref(st, 0, w), F(d), eng.tmp_ref(st, 0, joints)]
                shift = [d if i == axis else RV(0) for i in range(3)]
            else:
                w = Agg([BoxV([inner]), X], 'tool::Gantry'); args = [eng.tmp_ref(st, 0, w), eng.tmp_ref(st, 0, Agg([Mat(3, 1, [F(v) for v in dv])], 'Tr3')), eng.tmp_ref(st, 0, joints)]
                shift = dv
            res = eng.call_body(st, body, args)
            if len(res) != 1: raise Inconclusive(f'{nm}::forward left {len(res)} states')
            st, out = res[0]; ck.states += 1
            calls = [r for g, r in st.log]
            label = f'{nm}::forward' + (f'[axis={axis}]' if axis is not None else '') + ': '
            Rg = poly.ring_for(eng, extra_pairs=prs)
            ok = len(calls) == 1 and calls[0]['method'] == 'forward' and same(calls[0]['args'][0], joints)
            ck.decide(label + 'one inner forward call with the joints unchanged', eng, [st.pcz()], z3.BoolVal(not ok), lambda m: dict(wrapper=nm.lower(), method='forward', euler=[0, 0, 0], shift=[0, 0, 0]))
            if not calls: continue
            T = Iso(Mat(3, 3, [fconst(1 if i == k else 0) for i in range(3) for k in range(3)], 'rot'), Mat(3, 1, [F(v) for v in shift]))
            want = eng.na['iso_mul'](eng.na['iso_mul'](X, T), calls[0]['result'])
            for i, (l, r) in enumerate(zip(iso_terms(out), iso_terms(want))):
                p = poly.from_z3(Rg, l) - poly.from_z3(Rg, r)
                ck.decide(label + f'== base*T(d)*inner [{i}] [normalised, residual terms={p.nterms()}]', eng, [st.pcz()], p.to_z3() != 0,
                          lambda m: dict(wrapper=nm.lower(), method='forward', axis=axis if axis is not None else -1, euler=[0, 0, 0], shift=[0, 0, 0]))
        if nm == 'LinearAxis':
            # an axis index above 2 panics, and only then
            eng = ck.engine(); install_dynkin(eng); st = eng.new_state(); inner = DynKin('inner'); X, prs, tv = euler_iso(eng, 'X')
            ax = z3.Int('axis'); st.assume(z3.And(ax >= 0, ax < 2 ** 32))
            w = Agg([BoxV([inner]), ax, X], 'tool::LinearAxis')
            res = eng.call_body(st, eng.bodies[eng.find('::forward', f'tool::<impl at src/tool.rs:{_impl_line(eng, nm)}')], [eng.tmp_ref(st, 0, w), F(z3.Real('dist')), eng.tmp_ref(st, 0, Agg([F(z3.Real(f'q{i}')) for i in range(6)]))])
            pan = [o for o in eng.obligations if o['kind'] == 'panic']
            ck.prove('LinearAxis::forward: panic only for axis > 2', eng, z3.Or([o['cond'] for o in pan]) if pan else z3.BoolVal(False), ax <= 2, ax >= 0)
            ck.witness('LinearAxis::forward: axis > 2 does panic', eng, z3.Or([o['cond'] for o in pan]) if pan else z3.BoolVal(False), ax > 2)

def _impl_line(eng, ty):
    import re
    for n in eng.bodies:
        m = re.match(r'^tool::<impl at src/tool.rs:(\d+):1: ', n)
        if m and n.endswith('::forward'):
            src = open(os.path.join(REPO, 'src/tool.rs')).read().split('\n')[int(m.group(1)) - 1]
            if re.match(rf'^impl\s+{ty}\b', src): return m.group(1) + ':'
    raise Inconclusive(f'impl {ty} not found')

if __name__ == '__main__':
    main(run, 'C09')
