"""C08 — a constrained solver returns exactly the compliant solutions.

inverse / inverse_5dof (dof 6 and 5): executed whole from MIR over kernel summaries; every returned vector satisfies the limits (arc spec on the
centres/half-widths, which C07 ties to from/to) and every kernel answer that satisfies them is returned.
inverse_continuing / inverse_continuing_5dof: the returned list is the output of the constraint filter applied once to the complete sorted list
(C07 proves filter = order-preserving selection of the compliant elements); the singular candidate is additionally gated by constraints_compliant.
Wrappers: constraints() of Tool/Base/Frame (C09 matrix) and Parallelogram/KinematicsWithShape return the inner robot's limits unchanged.
"""
import z3
from .common import *
from . import ikentry
from .c09 import method_body
from mirsmt.oracles import install_dynkin, DynKin

def wrappers(ck):
    for ty, sty, extra in (('Tool', 'tool::Tool', 1), ('Base', 'tool::Base', 1), ('Frame', 'frame::Frame', 1), ('Parallelogram', 'parallelogram::Parallelogram', 3)):
        eng = ck.engine(); install_dynkin(eng); st = eng.new_state()
        cell = eng.tmp_ref(st, 0, Opaque('limits-of-inner')); inner = DynKin('inner', cons_ref=cell)
        w = Agg([BoxV([inner])] + [Opaque('x')] * extra, sty)
        res = eng.call_body(st, method_body(eng, ty, 'constraints'), [eng.tmp_ref(st, 0, w)])
        ok = len(res) == 1 and res[0][1] == cell and len(st.log) == 1
        ck.decide(f'{ty}::constraints returns the limits of the wrapped robot (one inner call)', eng, [], z3.BoolVal(not ok), lambda m: dict(wrapper=ty.lower(), constraints='true'))
        ck.states += 1

def run(ck):
    ck.bounds = dict(limits='centres in [-4pi,4pi], half-widths in [0,4pi] (>= pi accepts everything, covering from == to)', kernel='n <= 2 answers (0..3 thorough)', weights='0 (1 in thorough)')
    ck.assumptions += ['real arithmetic', 'C07: Constraints::new derives centres/half-widths such that compliant() is arc membership; filter() selects the compliant elements in order']
    wrappers(ck)
    ikentry.run_props(ck, ('C08',))

if __name__ == '__main__':
    main(run, 'C08')
