"""Harness helpers: symbolic OPW robots, poses, joint vectors as executor values."""
import z3
from .common import *

PNAMES = 'a1 a2 b c1 c2 c3 c4'.split()

def make_params(P=None, off=None, sign=None, dof=6, tag=''):
    """Parameters struct value; P: dict name->z3 real/number, off: list of 6, sign: list of 6 (python ints or z3 reals with s*s=1)"""
    P = P or {}
    pv = {n: (P[n] if n in P else z3.Real(n + tag)) for n in PNAMES}
    off = off if off is not None else [z3.Real(f'off{i}{tag}') for i in range(6)]
    sign = sign if sign is not None else [1] * 6
    def fl(x): return x if isinstance(x, F) else F(x if isz(x) else RV(x))
    params = Agg([fl(pv[n]) for n in PNAMES] + [Agg([fl(o) for o in off]), Agg(list(sign)), dof], 'Parameters')
    return params, pv, off, sign

def make_robot(params, constraints=None):
    """OPWKinematics { parameters, constraints: Option<Constraints>, unit_z }"""
    from mirsmt.models_na import unit_vec
    return Agg([params, NONE() if constraints is None else Some(constraints), unit_vec(2)], 'OPWKinematics')

def opw_fn(eng, name):
    """body of a Kinematics trait method / inherent method of OPWKinematics"""
    c = [n for n in eng.bodies if n.startswith('kinematics_impl::<impl at') and n.endswith('::' + name)]
    if len(c) != 1: raise Inconclusive(f'OPWKinematics::{name}: {len(c)} candidates')
    return eng.bodies[c[0]]
