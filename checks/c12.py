"""C12 - a planned Cartesian stroke is collision-free, in limits, continuous and linear.

Assume/guarantee composition over the real MIR of path_plan/cartesian.rs and path_plan/rrt.rs (what the lower layers answer is C01/C08/C11/C13):
  add_intermediate_poses   every pose it adds is flagged LIN_INTERP, lies strictly inside the straight segment start -> end at fraction i/steps (in order), orientation = slerp(., ., i/steps)
  with_intermediate_poses  LAND land, TRACE stroke poses in order, PARK park, each consecutive pair bridged by the densification of exactly that pair
  interpolate              translation on the segment at fraction p, orientation slerp, flag LIN_INTERP
  step_adaptive_linear_transition (recursion depth <= 2/3, arbitrary kinematic stack, 2 answers per call)
                           on Ok every element is an answer of the stack for a pose ON THE SEGMENT from -> to, continued from the previous element (or `starting`), within
                           max_transition_cost of it; the last element answers exactly `to`
  probe_strategy           (over summaries of the above, of RRTPlanner::plan_rrt and of the collision-aware robot; scripted outcome kinds, symbolic values)
                           the trace = relocation from the GIVEN START configuration (ONBOARDING) + landing solution (LAND) + the waypoints of every step in order; LAND/TRACE/PARK mark exactly
                           the waypoint that reproduces that given pose; LIN_INTERP exactly the interpolated Cartesian waypoints, which are absent when include_linear_interpolation = false;
                           a failed step is closed by RRT towards a collision-aware solution of its pose or fails the strategy; success only if every waypoint that was solved WITHOUT the robot
                           shape was tested and found collision free, and only while the stop flag is down
  RRTPlanner::plan_rrt     a node is accepted only if the robot does not collide there and the joint limits hold there; samples = random_angles() of the limits; arguments passed through
  plan                     collision test of the start configuration; strategies = collision-aware solutions of the landing pose continued from the start; every strategy probed with the start
                           configuration and the densified stroke; success <=> some strategy works, whatever hit rayon's find_map_any returns (schedule independence), result = that strategy's path
Native battery (real planner, 8 fixed scenes x 3 pool sizes + seeded random scenes): every clause of the property on every returned path.
Outside the claim: more than 4 interpolated poses per segment / 3 stroke poses / recursion depth 3 (bounds); transition coefficients other than the one concrete weight vector used;
rotation part of "on the segment" (slerp is an oracle); termination and success probability of RRT; printing.
"""
import itertools, re
import z3
from .common import *
from .c09 import free_pose
from mirsmt.oracles import install_collections, install_dynkin, DynKin
from mirsmt.models_na import Mat, Iso

LAND, TRACE, LIN, PARK, ONB = 1 << 4, 1 << 2, 1 << 3, 1 << 6, 1 << 1

def cfn(eng, name):
    c = [n for n in eng.bodies if n.startswith('cartesian::<impl at') and n.endswith('::' + name)]
    if len(c) != 1: raise Inconclusive(f'cartesian::{name}: {len(c)} candidates')
    return eng.bodies[c[0]]
def flags(bits): return Agg([Agg([bits], 'cartesian::_::InternalBitFlags')], 'cartesian::PathFlags')
def bits_of(fl):
    v = fl
    while isinstance(v, Agg): v = v.items[0]
    return v
def apose(tag, bits): return Agg([free_pose(tag), flags(bits)], 'cartesian::AnnotatedPose')

def install_cartesian(eng, rec):
    """models the planner needs beyond the collision set: range test, lerp (mathematical), slerp / rotation angle (oracles: SOME rotation / angle
    determined by the arguments), ceil + saturating float->usize cast, windows(2), last(), chain, Instant, AtomicBool"""
    from mirsmt.symex import fop
    D = eng.deref
    M = lambda pat, h: eng.model(pat, h, front=True)
    one = lambda st, v: [(st, v)]
    rec.update(slerp=[], angle=[], ceil=[], stop_store=[], stop_load=[])
    M(r'^std::ops::RangeInclusive::<f64>::contains', lambda e, st, fr, f, a, m: one(st, b_and(e.binop('Le', D(st, a[0]).items[0], D(st, a[1])), e.binop('Le', D(st, a[1]), D(st, a[0]).items[1]))))
    def lerp(e, st, fr, f, a, m):
        x, y, t = D(st, a[0]), D(st, a[1]), a[2]
        return one(st, Mat(x.r, x.c, [fop('Add', p, fop('Mul', fop('Sub', q, p), t)) for p, q in zip(x.d, y.d)]))
    M(r'::lerp', lerp)
    def slerp(e, st, fr, f, a, m):
        x, y, t = D(st, a[0]), D(st, a[1]), a[2]; n = len(rec['slerp'])
        R = Mat(3, 3, [F(z3.Real(f'slerp{n}_r{i}{k}')) for i in range(3) for k in range(3)], 'rot')
        rec['slerp'].append(dict(a=x, b=y, t=t, res=R)); return one(st, R)
    M(r'::slerp$', slerp)
    def angle(e, st, fr, f, a, m):
        n = len(rec['angle']); v = z3.Real(f'angle{n}'); e.side.append(v >= 0); e.side_lin.append(v >= 0); rec['angle'].append((D(st, a[0]), v)); return one(st, F(v))
    M(r'<impl .*Unit<.*Quaternion<f64>>>::angle$|UnitQuaternion::<f64>::angle$', angle)
    def ceil(e, st, fr, f, a, m):
        n = len(rec['ceil']); k = z3.Int(f'ceil{n}'); x = a[0]
        c = z3.Implies(z3.Not(zb(x.poison())), z3.And(z3.ToReal(k) >= x.v, z3.ToReal(k) < x.v + 1))
        e.side.append(c); e.side_lin.append(c); rec['ceil'].append((x, k))
        return one(st, F(z3.ToReal(k), x.nan, x.inf))
    M(r'std::f64::<impl f64>::ceil$', ceil)
    def f2i(v, ty):
        # saturating cast of an integral float: NaN -> 0, negative -> 0, +inf -> MAX (MAX kept symbolic-large: excluded by the harness bounds)
        t = v.v
        if z3.is_app(t) and t.decl().kind() == z3.Z3_OP_TO_REAL: k = t.arg(0)
        else: raise Inconclusive('FloatToInt of a non-integral float')
        return z3.If(z3.Or(zb(v.nan), k < 0), z3.IntVal(0), k)
    eng.float_to_int = f2i
    def imax(e, st, fr, f, a, m):
        x, y = a
        if not isz(x) and not isz(y): return one(st, max(x, y))
        return one(st, z3.If(zi(x) >= zi(y), zi(x), zi(y)))
    M(r'^<usize as std::cmp::Ord>::max$|^std::cmp::Ord::max$', imax)
    def windows(e, st, fr, f, a, m):
        v = D(st, a[0]); n = a[1]
        if not isinstance(v, VecV) or not v.is_dense() or isz(n): raise Inconclusive('windows over a guarded Vec')
        k = len(v.ents)
        # each window is a reference to a read-only copy of the n consecutive elements (the planner never writes through it)
        return one(st, IterV([(True, e.tmp_ref(st, 0, VecV.dense([v.ents[i + j][1] for j in range(n)]))) for i in range(k - n + 1)], 'val'))
    M(r'core::slice::<impl \[.*\]>::windows$', windows)
    def last(e, st, fr, f, a, m):
        v = D(st, a[0])
        if not isinstance(v, VecV): raise Inconclusive('last() of ' + type(v).__name__)
        if v.is_dense(): return one(st, Some(a[0].sub(len(v.ents) - 1)) if v.ents else NONE())
        # guarded list (merged outcomes of different length): the last PRESENT element, read-only copy
        val = None; anyg = False
        for g, x in v.ents:
            val = x if val is None else ite_data(zb(g), x, val); anyg = b_or(anyg, g)
        return one(st, Enum(z3.If(zb(anyg), 1, 0) if isz(anyg) else (1 if anyg else 0), [e.tmp_ref(st, fr, val)], 'Option'))
    M(r'core::slice::<impl \[.*\]>::last$|^std::vec::Vec::<.*>::last$', last)
    M(r'^<.* as std::iter::Iterator>::chain', lambda e, st, fr, f, a, m: one(st, IterV(list(a[0].ents) + list(a[1].ents if isinstance(a[1], IterV) else a[1].ents), 'val')))
    M(r'^std::time::Instant::now$', lambda e, st, fr, f, a, m: one(st, Opaque('instant')))
    M(r'^std::time::Instant::elapsed$', lambda e, st, fr, f, a, m: one(st, Opaque('duration')))
    M(r'^std::sync::atomic::AtomicBool::new$|^std::sync::atomic::Atomic::<bool>::new$', lambda e, st, fr, f, a, m: one(st, Opaque('stopflag')))
    def store(e, st, fr, f, a, m): rec['stop_store'].append((st.pcz(), a[1])); return one(st, UNIT)
    M(r'^std::sync::atomic::Atomic(Bool)?(::<bool>)?::store$', store)
    def load(e, st, fr, f, a, m):
        b = z3.Bool(f'stop{len(rec["stop_load"])}'); rec['stop_load'].append(b); return one(st, b)
    M(r'^std::sync::atomic::Atomic(Bool)?(::<bool>)?::load$', load)
    M(r'^utils::dump_joints$', lambda e, st, fr, f, a, m: one(st, UNIT))
    M(r'^<&str as std::convert::Into<std::string::String>>::into$|^<str as std::string::ToString>::to_string$|^<std::string::String as std::convert::From<&str>>::from$', lambda e, st, fr, f, a, m: one(st, Opaque('string')))
    def all_flags(e, st, fr, f, a, m):
        # bitflags' all(): the union of the named flags. The named flags are the crate's own constants (evaluated from their MIR); the iteration
        # over bitflags' FLAGS table is library code outside the dump.
        names = [n for n in e.bodies.keys() if re.match(r'^cartesian::<impl at [^>]*bitflags[^>]*>::[A-Z_]+$', n) and e.bodies[n].nargs == 0 and e.bodies[n].local_ty.get(0, '').strip() == 'cartesian::PathFlags']
        if len(names) < 10: raise Inconclusive('flag constants not found')
        u = 0
        for n in names: u |= bits_of(e.const(n, st))
        return one(st, Agg([u], 'cartesian::_::InternalBitFlags') if 'InternalBitFlags' in f else flags(u))
    M(r'^cartesian::_::(InternalBitFlags|<impl cartesian::PathFlags>)::all$', all_flags)
    def unwrap_or_else(e, st, fr, f, a, m):
        o, clo = a
        if not isz(o.disc):
            if o.disc == 1: return one(st, o.items[0])
            return e.call_closure(st, fr, clo, [])
        s1 = st.clone(); s1.assume(zi(o.disc) == 1)
        s2 = st.clone(); s2.assume(zi(o.disc) != 1)
        return [(s1, o.items[0])] + e.call_closure(s2, fr, clo, [])
    M(r'^std::option::Option::<.*>::unwrap_or_else', unwrap_or_else)
    def and_then(e, st, fr, f, a, m):
        r, clo = a
        if isz(r.disc): raise Inconclusive('and_then on a result of unknown kind')
        if r.disc != 0: return one(st, r)
        st, v = e.call1(st, fr, clo, [r.items[0]]); return one(st, v)
    M(r'^std::result::Result::<.*>::and_then', and_then)
    def collect_results(e, st, fr, f, a, m):
        if not re.search(r'collect::<std::result::Result<std::vec::Vec<', f): return NotImplemented
        it = a[0]; vals = []
        for g, x in it.ents:
            if g is not True or isz(x.disc): raise Inconclusive('collect of results of unknown kind')
            if x.disc != 0: return one(st, x)
            vals.append(x.items[0])
        return one(st, Ok(VecV.dense(vals)))
    M(r'^<.* as std::iter::Iterator>::collect$', collect_results)
    def par_any(e, st, fr, f, a, m):
        it, clo = a; acc = False
        for g, x in it.ents:
            st, r = e.call1(st, fr, clo, [x]); acc = b_or(acc, b_and(g, r))
        return one(st, acc)
    M(r'as rayon::iter::ParallelIterator>::any$', par_any)
    def take(e, st, fr, f, a, m):
        it, n = a
        if isz(n) or not isinstance(it, IterV) or any(g is not True for g, _ in it.ents): raise Inconclusive('take() with a symbolic count / guarded iterator')
        return one(st, IterV(list(it.ents[:n]), it.kind))
    M(r'^<.* as std::iter::Iterator>::take$', take)
    def skip(e, st, fr, f, a, m):
        it, n = a
        if isz(n) or not isinstance(it, IterV) or any(g is not True for g, _ in it.ents): raise Inconclusive('skip() with a symbolic count / guarded iterator')
        return one(st, IterV(list(it.ents[n:]), it.kind))
    M(r'^<.* as std::iter::Iterator>::skip$', skip)
    M(r'core::num::<impl usize>::saturating_sub$', lambda e, st, fr, f, a, m: one(st, max(a[0] - a[1], 0) if not isz(a[0]) and not isz(a[1]) else z3.If(zi(a[0]) >= zi(a[1]), zi(a[0]) - zi(a[1]), z3.IntVal(0))))

COEFS = ('2', '3/2', '5/4', '3/4', '1/2', '3')      # concrete weights keep the cost comparisons linear; deliberately NOT DEFAULT_TRANSITION_COSTS (the configured weights must be the ones used)
def cartesian(robot, step_m=None, step_rad=None, cost=None, depth=0, include=True):
    """the planner value; field order = declaration order"""
    return Agg([robot, F(step_m if step_m is not None else z3.Real('check_step_m')), F(step_rad if step_rad is not None else z3.Real('check_step_rad')),
                F(cost if cost is not None else z3.Real('max_cost')), Agg([F(z3.RealVal(c)) for c in COEFS]), depth,
                Opaque('rrtplanner'), include, False], 'cartesian::Cartesian')

def check_add_intermediate(ck):
    """add_intermediate_poses(start, end): every pose it adds is flagged LIN_INTERP, lies strictly inside the straight segment start -> end at the fraction
    i/steps (i = 1, 2, ... in order) and takes its orientation from slerp(start, end, i/steps); nothing else is added."""
    eng = ck.engine(unwind=4); rec = {}; install_collections(eng); install_cartesian(eng, rec)
    st = eng.new_state()
    sm, sr = z3.Real('check_step_m'), z3.Real('check_step_rad'); st.assume(z3.And(sm > 0, sr > 0))
    A, B = free_pose('A'), free_pose('B')
    planner = cartesian(Opaque('robot'))
    poses = eng.tmp_ref(st, 0, VecV([]))
    from mirsmt import values as _v
    _v.CONFIG['merge_vec_lengths'] = False
    try: res = eng.call_body(st, cfn(eng, 'add_intermediate_poses'), [eng.tmp_ref(st, 0, planner), eng.tmp_ref(st, 0, A), eng.tmp_ref(st, 0, B), poses])
    finally: _v.CONFIG['merge_vec_lengths'] = True
    case = lambda m=None: dict(scene='reorient')
    label = 'add_intermediate_poses: '
    ck.states += len(res)
    seen = set()
    for s1, _o in res:
        out = eng.read_ref(s1, poses); ctx = list(s1.pc)
        if not out.is_dense(): raise Inconclusive('guarded pose list')
        n = len(out.ents); seen.add(n)
        for i, (_g, ap) in enumerate(out.ents):
            iso, fl = ap.items[0], bits_of(ap.items[1]); lam = z3.Real(f'lam{n}_{i}')
            ck.decide(label + f'[{n} added] pose {i} is flagged LIN_INTERP only', eng, ctx, z3.BoolVal(isz(fl) or fl != LIN), case, nomodel_case=case)
            # the loop leaves with steps = n+1: the candidate positions along the segment are the multiples of 1/(n+1) in [0, 1] (the property asks for "on the segment")
            onseg = z3.Or([z3.And([iso.t.d[k].v == A.t.d[k].v + z3.Q(j, n + 1) * (B.t.d[k].v - A.t.d[k].v) for k in range(3)]) for j in range(0, n + 2)])
            ck.decide(label + f'[{n} added] pose {i} lies on the straight segment start -> end', eng, ctx, z3.Not(onseg), case, nomodel_case=case)
            # semantic form (the pose may be a merge of several paths): the orientation equals the result of SOME slerp(start, end, t) call with t in [0, 1]
            cands = [r for r in rec['slerp'] if same(r['a'], A.R) and same(r['b'], B.R)]
            hit = z3.Or([z3.And(*[x_.v == y_.v for x_, y_ in zip(iso.R.d, r['res'].d)], r['t'].v >= 0, r['t'].v <= 1) for r in cands]) if cands else z3.BoolVal(False)
            ck.decide(label + f'[{n} added] orientation {i} = slerp(start, end, t), t in [0, 1]', eng, ctx, z3.Not(hit), case, nomodel_case=case)
            ck.decide(label + f'[{n} added] pose {i} is finite when the inputs are', eng, ctx + [z3.Not(zb(b_or(*[x.poison() for x in A.t.d + B.t.d])))], z3.Or([zb(x.poison()) for x in iso.t.d]), case, nomodel_case=case)
    ck.decide(label + 'vacuity: 0, 1 and 2 added poses are all reachable', eng, [], z3.BoolVal(not {0, 1, 2} <= seen), case, nomodel_case=case)
    for ob in eng.obligations:
        if ob['kind'] == 'unwind': continue      # more than K interpolated poses: outside the bound
        ck.decide(label + f"{ob['kind']} unreachable: {ob['msg'][:50]}", eng, [ob['cond']], z3.BoolVal(True), case, nomodel_case=case)

def check_with_intermediate(ck, n):
    """with_intermediate_poses(land, steps[n], park) = LAND land, interp(land, s0), TRACE s0, interp(s0, s1), ..., TRACE s_last, interp(s_last, park), PARK park
    (interp = whatever add_intermediate_poses adds for that pair: replaced here by a logging summary that adds one marker)"""
    eng = ck.engine(unwind=n + 3); rec = {}; install_collections(eng); install_cartesian(eng, rec)
    st = eng.new_state(); calls = []
    def add(e, st_, fr, f, a):
        k = len(calls); calls.append((e.deref(st_, a[1]), e.deref(st_, a[2])))
        v = e.deref(st_, a[3]); e.write_ref(st_, a[3], VecV(list(v.ents) + [(True, Agg([Opaque('interp', k), flags(LIN)], 'cartesian::AnnotatedPose'))]))
        return [(st_, UNIT)]
    eng.overrides[cfn(eng, 'add_intermediate_poses').name] = add
    land, park = free_pose('land'), free_pose('park'); steps = [free_pose(f's{i}') for i in range(n)]
    res = eng.call_body(st, cfn(eng, 'with_intermediate_poses'), [eng.tmp_ref(st, 0, cartesian(Opaque('robot'))), eng.tmp_ref(st, 0, land), eng.tmp_ref(st, 0, VecV.dense(steps)), eng.tmp_ref(st, 0, park)])
    case = lambda m=None: dict(scene='free'); label = f'with_intermediate_poses[{n} stroke poses]: '
    given = [land] + steps + [park]
    ok = False
    try:
        (s1, out), = res
        want = []
        for k in range(len(given)):
            want.append(('pose', k))
            if k + 1 < len(given): want.append(('interp', k))
        got = []
        for g, ap in out.ents:
            if g is not True: raise ValueError('guarded')
            p_, fl = ap.items[0], bits_of(ap.items[1])
            if isinstance(p_, Opaque):
                a_, b_ = calls[p_.name]; k = [j for j in range(len(given) - 1) if same(a_, given[j]) and same(b_, given[j + 1])]
                got.append(('interp', k[0] if len(k) == 1 else -1) if fl == LIN else ('?', fl))
            else:
                k = [j for j in range(len(given)) if same(p_, given[j])]
                wantfl = LAND if k == [0] else (PARK if k == [len(given) - 1] else TRACE)
                got.append(('pose', k[0]) if len(k) == 1 and fl == wantfl else ('?', fl))
        # densification may add nothing for a pair; what it adds must belong to the pair it stands between
        gi = 0; ok = True
        for w in want:
            if gi < len(got) and got[gi] == w: gi += 1
            elif w[0] == 'interp': continue
            else: ok = False; break
        ok = ok and gi == len(got)
        if not ok: ck.notes.append(f'{label} got {got}')
    except Exception as e: ck.notes.append(f'{label} structure walk failed: {e!r}')
    ck.states += len(res)
    ck.decide(label + 'LAND, stroke poses (TRACE) and PARK in the given order; interpolated poses only between the two given poses they interpolate', eng, [], z3.BoolVal(not ok), case, nomodel_case=case)
    for ob in eng.obligations: ck.decide(label + f"{ob['kind']} unreachable: {ob['msg'][:50]}", eng, [ob['cond']], z3.BoolVal(True), case, nomodel_case=case)

def check_interpolate(ck):
    """AnnotatedPose::interpolate(other, p), 0 <= p <= 1: translation on the segment at fraction p, orientation slerp(self, other, p), flag LIN_INTERP"""
    eng = ck.engine(); rec = {}; install_collections(eng); install_cartesian(eng, rec); st = eng.new_state()
    a, b = apose('A', LAND), apose('B', TRACE); p = z3.Real('p'); st.assume(z3.And(p >= 0, p <= 1))
    res = eng.call_body(st, cfn(eng, 'interpolate'), [eng.tmp_ref(st, 0, a), eng.tmp_ref(st, 0, b), F(p)])
    case = lambda m=None: dict(scene='free'); label = 'interpolate: '
    ck.states += len(res)
    if len(res) != 1: ck.decide(label + 'single outcome', eng, [], z3.BoolVal(True), case, nomodel_case=case); return
    s1, o = res[0]; ctx = list(s1.pc); iso = o.items[0]; A, B = a.items[0], b.items[0]
    ck.decide(label + 'flag LIN_INTERP only', eng, ctx, z3.BoolVal(bits_of(o.items[1]) != LIN), case, nomodel_case=case)
    ck.decide(label + 'translation = A + p (B - A)', eng, ctx, z3.Or([iso.t.d[k].v != A.t.d[k].v + p * (B.t.d[k].v - A.t.d[k].v) for k in range(3)]), case, nomodel_case=case)
    sl = rec['slerp']; oks = len(sl) == 1 and same(sl[0]['a'], A.R) and same(sl[0]['b'], B.R) and same(sl[0]['res'], iso.R)
    ck.decide(label + 'orientation = slerp(A, B, p)', eng, ctx, z3.BoolVal(not oks) if not oks else sl[0]['t'].v != p, case, nomodel_case=case)
    for ob in eng.obligations: ck.decide(label + f"{ob['kind']} unreachable: {ob['msg'][:50]}", eng, [ob['cond']] + ctx, z3.BoolVal(True), case, nomodel_case=case)

def eq6(a, b): return z3.And([x.v == y.v for x, y in zip(a.items, b.items)])
def iso_eq(a, b): return z3.And([x.v == y.v for x, y in zip(a.R.d, b.R.d)] + [x.v == y.v for x, y in zip(a.t.d, b.t.d)])
def cost_term(a, b, coefs): return sum(z3.If(x.v - y.v >= 0, x.v - y.v, y.v - x.v) * c.v for x, y, c in zip(a.items, b.items, coefs.items))
def mk_robot(eng, st, nsol=2):
    cell = eng.tmp_ref(st, 0, Opaque('limits-of-stack')); stack = DynKin('stack', nsol=nsol, cons_ref=cell)
    return Agg([BoxV([stack]), Opaque('body')], 'kinematics_with_shape::KinematicsWithShape')

def check_step_adaptive(ck, depth):
    """step_adaptive_linear_transition(starting, from, to, 0) with linear_recursion_depth = depth over an arbitrary kinematic stack (2 answers per call):
    on Ok every returned joint vector is an answer of the stack for a pose whose position lies on the straight segment from -> to (dyadic fractions),
    asked with the PREVIOUS returned vector (or `starting`) as the configuration to continue from, within max_transition_cost of that previous vector;
    the last one answers exactly the pose `to`."""
    eng = ck.engine(unwind=6); rec = {}; install_collections(eng); install_dynkin(eng); install_cartesian(eng, rec)
    st = eng.new_state(); robot = mk_robot(eng, st)
    pl = cartesian(eng.tmp_ref(st, 0, robot), depth=depth); coefs = pl.items[4]; maxc = pl.items[3].v
    start = Agg([F(z3.Real(f'start{i}')) for i in range(6)]); a, b = apose('A', LAND), apose('B', TRACE); A, B = a.items[0], b.items[0]
    res = eng.call_body(st, cfn(eng, 'step_adaptive_linear_transition'), [eng.tmp_ref(st, 0, pl), eng.tmp_ref(st, 0, start), eng.tmp_ref(st, 0, a), eng.tmp_ref(st, 0, b), 0])
    case = lambda m=None: dict(scene='free'); label = f'step_adaptive_linear_transition[depth {depth}]: '
    ck.states += len(res); n_ok = 0
    lams = [z3.Q(k, 2 ** depth) for k in range(0, 2 ** depth + 1)]
    for s1, o in res:
        if isz(o.disc): raise Inconclusive('Ok/Err not separated')
        if o.disc != 0: continue
        n_ok += 1; ctx = list(s1.pc); out = o.items[0]
        calls = [(zb(g), r) for g, r in s1.log if r['obj'] == 'stack' and r['method'] == 'inverse_continuing']
        other = [r for g, r in s1.log if not (r['obj'] == 'stack' and r['method'] == 'inverse_continuing')]
        ck.decide(label + 'only inverse_continuing of the kinematic stack is consulted', eng, [], z3.BoolVal(bool(other)), case, nomodel_case=case)
        ents = [(zb(g), v) for g, v in out.ents]
        ck.decide(label + 'Ok carries at least one joint vector', eng, ctx, z3.Not(z3.Or([g for g, _ in ents])), case, nomodel_case=case)
        pred = start
        for i, (g, v) in enumerate(ents):
            def pose_ok(c):
                P = c['args'][0]
                on = [z3.And([P.t.d[k].v == A.t.d[k].v + lam * (B.t.d[k].v - A.t.d[k].v) for k in range(3)]) for lam in lams]
                return z3.Or(iso_eq(P, B), *on)
            src = z3.Or([z3.And(gc, eq6(v, sol), eq6(c['args'][1], pred), pose_ok(c)) for gc, c in calls for sol in c['result'].items])
            ck.decide(label + f'element {i}: an answer of the stack for a pose on the segment, continued from the previous element', eng, ctx + [g], z3.Not(src), case, nomodel_case=case)
            ck.decide(label + f'element {i}: within max_transition_cost of the previous element', eng, ctx + [g], cost_term(pred, v, coefs) > maxc, case, nomodel_case=case)
            pred = ite_data(g, v, pred) if i + 1 < len(ents) else pred
        lastq = z3.Or([z3.And(g, z3.Not(z3.Or([g2 for g2, _ in ents[i + 1:]])) if ents[i + 1:] else True,
                              z3.Or([z3.And(gc, eq6(v, sol), iso_eq(c['args'][0], B)) for gc, c in calls for sol in c['result'].items])) for i, (g, v) in enumerate(ents)])
        ck.decide(label + 'the last element answers the pose `to` itself', eng, ctx, z3.Not(lastq), case, nomodel_case=case)
        if len(ents) > 1: ck.witness(label + 'a bisected transition is reachable', eng, *ctx, ents[0][0], ents[1][0])
    ck.decide(label + 'vacuity: success is reachable', eng, [], z3.BoolVal(n_ok == 0), case, nomodel_case=case)
    for ob in eng.obligations:
        ck.decide(label + f"{ob['kind']} unreachable: {ob['msg'][:50]}", eng, [ob['cond']], z3.BoolVal(True), case, nomodel_case=case)

def arg_index(body, name):
    return body.arg_names.get(name)
def jv(tag): return Agg([F(z3.Real(f'{tag}_{i}')) for i in range(6)])
ORIGINAL = TRACE | LAND | PARK

def probe_harness(ck, script, onboarding, include, given_flags=(LAND, LIN, TRACE, PARK)):
    """run probe_strategy over summaries of step_adaptive_linear_transition (scripted outcome kinds, symbolic values), RRTPlanner::plan_rrt,
    KinematicsWithShape::{inverse_continuing, collides}; returns what happened"""
    from .c09 import method_body
    from .c11 import kws_fn
    eng = ck.engine(unwind=8); rec = {}; install_collections(eng); install_dynkin(eng); install_cartesian(eng, rec)
    st = eng.new_state(); robot = mk_robot(eng, st); rref = eng.tmp_ref(st, 0, robot)
    pl = cartesian(rref, depth=1, include=include)
    ev = dict(step=[], rrt=[], rik=[], coll=[], expected=[])
    def step(e, st_, fr, f, a):
        k = len(ev['step']); kind = script[k][0] if k < len(script) else 'ok1'
        ev['step'].append(dict(starting=e.deref(st_, a[1]), frm=e.deref(st_, a[2]), to=e.deref(st_, a[3]), depth=a[4]))
        if kind == 'err': return [(st_, Err(Opaque('transition', k)))]
        js = [jv(f'ext{k}_{i}') for i in range(1 if kind == 'ok1' else 2)]; ev['step'][-1]['out'] = js
        return [(st_, Ok(VecV.dense(js)))]
    eng.overrides[cfn(eng, 'step_adaptive_linear_transition').name] = step
    def rrt(e, st_, fr, f, a):
        k = len(ev['rrt']); r = dict(start=e.deref(st_, a[1]), goal=e.deref(st_, a[2]), robot=a[3], planner=e.deref(st_, a[0]))
        ev['rrt'].append(r)
        kind = r['kind'] = rrt_script[k] if k < len(rrt_script) else 'err'
        if kind == 'err': return [(st_, Err(Opaque('string')))]
        r['path'] = [jv(f'rrt{k}_{i}') for i in range(3)]      # C13: begins at start, ends at goal, collision free, inside the limits
        return [(st_, Ok(VecV.dense(r['path'])))]
    rrt_script = ([onboarding] if onboarding is not None else []) + [x for sc in script if sc[0] == 'err' for x in sc[1]]
    c = [n for n in eng.bodies if n.startswith('rrt::<impl at') and n.endswith('::plan_rrt')]
    if len(c) != 1: raise Inconclusive('RRTPlanner::plan_rrt not found')
    eng.overrides[c[0]] = rrt
    def rik(e, st_, fr, f, a):
        k = len(ev['rik']); sols = [jv(f'rik{k}_{i}') for i in range(2)]
        ev['rik'].append(dict(pose=e.deref(st_, a[1]), prev=e.deref(st_, a[2]), sols=sols)); return [(st_, VecV.dense(sols))]
    eng.overrides[method_body(eng, 'KinematicsWithShape', 'inverse_continuing').name] = rik
    def coll(e, st_, fr, f, a):
        b = z3.Bool(f'collides{len(ev["coll"])}'); ev['coll'].append((e.deref(st_, a[1]), b)); return [(st_, b)]
    eng.overrides[kws_fn(eng, 'collides').name] = coll
    eng.overrides[cfn(eng, 'log_failed_transition').name] = lambda e, st_, fr, f, a: [(st_, UNIT)]
    poses = [Agg([free_pose(f'P{i}'), flags(fl)], 'cartesian::AnnotatedPose') for i, fl in enumerate(given_flags)]
    body = cfn(eng, 'probe_strategy')
    frm, strat = jv('from'), jv('strategy')
    vals = dict(work_path_start=eng.tmp_ref(st, 0, strat), poses=eng.tmp_ref(st, 0, VecV.dense(poses)), stop=eng.tmp_ref(st, 0, Opaque('stopflag')))
    args = [None] * body.nargs; args[0] = eng.tmp_ref(st, 0, pl)
    for nm, v in vals.items():
        k = arg_index(body, nm)
        if k is None: raise Inconclusive(f'probe_strategy has no parameter named {nm}')
        args[k - 1] = v
    kf = arg_index(body, 'from'); ev['takes_from'] = kf is not None
    if kf is not None: args[kf - 1] = eng.tmp_ref(st, 0, frm)
    if any(x is None for x in args): raise Inconclusive('probe_strategy has a parameter the harness does not know')
    res = eng.call_body(st, body, args)
    ev.update(eng=eng, rec=rec, res=res, poses=poses, frm=frm, strat=strat, planner=pl, robot=rref)
    return ev

def check_probe(ck, script, onboarding='ok', include=True):
    ev = probe_harness(ck, script, onboarding, include)
    eng, res, poses, frm, strat = ev['eng'], ev['res'], ev['poses'], ev['frm'], ev['strat']
    label = f'probe_strategy[steps {[s_[0] + ("/" + ",".join(s_[1]) if len(s_) > 1 else "") for s_ in script]}, onboarding {onboarding}, include {include}]: '
    case = lambda m=None: dict(scene='', include=1 if include else 0)
    ck.states += len(res)
    # what the property allows as a successful trace, from the script: list of (joint value, kind, to-flags)
    ok_possible = onboarding == 'ok'
    exp = []
    if ev['rrt'] and ev['rrt'][0]['kind'] == 'ok': exp += [(j, 'onb', 0) for j in ev['rrt'][0]['path'][:-1]]
    exp.append((strat, 'given', LAND))
    ri = 1; ki = 0
    for k, sc in enumerate(script):
        tofl = bits_of(poses[k + 1].items[1])
        if sc[0] != 'err':
            out = ev['step'][k].get('out', []) if k < len(ev['step']) else []
            for i, j in enumerate(out): exp.append((j, 'ext-last' if i == len(out) - 1 else 'ext', tofl))
        else:
            hit = None
            for kind in sc[1]:
                if ri < len(ev['rrt']) and ev['rrt'][ri]['kind'] == 'ok' and hit is None: hit = ev['rrt'][ri]
                ri += 1
            ki += 1
            if hit is None: ok_possible = False; break
            for i, j in enumerate(hit['path']): exp.append((j, 'rrt-last' if i == len(hit['path']) - 1 else 'rrt', tofl))
    n_ok = 0
    for s1, o in res:
        if isz(o.disc): raise Inconclusive('Ok/Err not separated')
        ctx = list(s1.pc)
        if o.disc != 0: continue
        n_ok += 1
        ck.decide(label + 'success only when the onboarding relocation and every step (directly or closed by RRT) succeeded', eng, ctx, z3.BoolVal(not ok_possible), case, nomodel_case=case)
        if not ok_possible: continue
        tr = o.items[0]
        ents = [(zb(g), v) for g, v in tr.ents]
        # the trace, element by element, against the sequence the property allows
        want = [(j, kind, tofl) for j, kind, tofl in exp if include or not ((kind in ('ext', 'ext-last')) and (kind == 'ext' or tofl & LIN))]
        present = [(g, v) for g, v in ents]
        # guards: an element dropped by include_linear_interpolation=false has a False guard after retain
        live = [(g, v) for g, v in present if not z3.is_false(z3.simplify(g))]
        okn = len(live) == len(want)
        ck.decide(label + f'the trace has the {len(want)} waypoints the steps produced, in order (got {len(live)})', eng, ctx, z3.BoolVal(not okn), case, nomodel_case=case)
        if not okn: continue
        for i, ((g, v), (j, kind, tofl)) in enumerate(zip(live, want)):
            vj, fl = v.items[0], bits_of(v.items[1])
            if isz(fl): raise Inconclusive('symbolic flags')
            ck.decide(label + f'waypoint {i} ({kind}) is present and is the joint vector that step produced', eng, ctx, z3.BoolVal(not (same(vj, j) and z3.is_true(z3.simplify(g)))), case, nomodel_case=case)
            marker = fl & ORIGINAL; want_marker = (tofl & ORIGINAL) if kind in ('given', 'ext-last', 'rrt-last') else 0
            ck.decide(label + f'waypoint {i} ({kind}): LAND/TRACE/PARK flags mark exactly the waypoint that reproduces that given pose', eng, ctx, z3.BoolVal(marker != want_marker), case, nomodel_case=case)
            want_lin = kind == 'ext' or (kind == 'ext-last' and bool(tofl & LIN))
            ck.decide(label + f'waypoint {i} ({kind}): LIN_INTERP exactly on interpolated Cartesian waypoints', eng, ctx, z3.BoolVal(bool(fl & LIN) != want_lin), case, nomodel_case=case)
            ck.decide(label + f'waypoint {i} ({kind}): ONBOARDING exactly on the relocation from the start configuration', eng, ctx, z3.BoolVal(bool(fl & ONB) != (kind == 'onb')), case, nomodel_case=case)
        # collisions: every waypoint that was not produced by a collision-filtered source has a negative verdict on this path
        filtered = [s_ for r_ in ev['rik'] for s_ in r_['sols']]
        for j, kind, tofl in exp:
            vs = [b for q, b in ev['coll'] if same(q, j)]
            if kind == 'given':
                # the landing solution: collision free either because plan() takes it from the collision-aware robot (decided in check_plan) or because it is tested here
                res_, _m = ck.query(label + 'the landing solution is tested for collisions here', eng, *ctx, z3.Or(vs) if vs else z3.BoolVal(True))
                ck.c12_strategy_checked = getattr(ck, 'c12_strategy_checked', True) and res_ == 'unsat'
                continue
            if kind == 'onb' and same(j, ev['rrt'][0]['path'][0]):
                # the first node of the relocation is the start configuration itself (C13): collision free because plan() tests it, or because it is tested here
                res_, _m = ck.query(label + 'the start configuration is tested for collisions here', eng, *ctx, z3.Or(vs) if vs else z3.BoolVal(True))
                ck.c12_start_checked = getattr(ck, 'c12_start_checked', True) and res_ == 'unsat'
            if kind in ('onb', 'rrt'): continue                                             # accepted by the RRT planner: plan_rrt wiring + C13
            if kind == 'rrt-last' and any(same(j, f_) for f_ in filtered): continue             # never the case here: the path nodes are fresh symbols (the goal is C13's business)
            if kind == 'rrt-last': continue
            ck.decide(label + f'success only if waypoint {j.items[0].v} (solved without the robot shape) was tested and found collision free', eng, ctx, z3.Or(vs) if vs else z3.BoolVal(True), case, nomodel_case=case)
    ck.decide(label + ('vacuity: success is reachable' if ok_possible else 'failure of a step that RRT cannot close fails the strategy'), eng, [], z3.BoolVal((n_ok == 0) == ok_possible), case, nomodel_case=case)
    # wiring of the calls
    ok_from = ev['takes_from'] and len(ev['rrt']) >= 1 and same(ev['rrt'][0]['start'], frm) and same(ev['rrt'][0]['goal'], strat)
    ck.decide(label + 'the relocation is planned from the given start configuration to the landing solution of this strategy', eng, [], z3.BoolVal(not ok_from), case, nomodel_case=case)
    prev = strat; ri = 1; ki = 0; okw = True; why = ''
    for k, sc in enumerate(script):
        if k >= len(ev['step']): break
        c = ev['step'][k]
        if not (same(c['starting'], prev) and same(c['frm'], poses[k]) and same(c['to'], poses[k + 1]) and c['depth'] == 0): okw = False; why = f'step {k}'
        if sc[0] != 'err': prev = c['out'][-1]
        else:
            cands = [r_['sols'] for r_ in ev['rik'] if same(r_['pose'], poses[k + 1].items[0]) and same(r_['prev'], prev)]
            unfiltered = [list(r_['result'].items) for r_ in eng.kin_calls if r_['method'] == 'inverse_continuing' and same(r_['args'][0], poses[k + 1].items[0]) and same(r_['args'][1], prev)]
            if not cands and not unfiltered: okw = False; why = f'no solution of the pose of step {k} (continued from the last waypoint) was asked for'; break
            sols = (cands or unfiltered)[0]; hit = None
            if not cands: ev['closing_unfiltered'] = True
            for n_, kind in enumerate(sc[1]):
                if ri >= len(ev['rrt']): okw = False; why = f'rrt call {ri} missing'; break
                r = ev['rrt'][ri]; ri += 1
                if not (same(r['start'], prev) and same(r['goal'], sols[n_])): okw = False; why = f'rrt call of step {k}'
                if kind == 'ok': hit = r; break
            if hit is None: break
            prev = hit['path'][-1]
    ck.decide(label + f'each step continues from the last waypoint, bridges consecutive poses in order; a failed step is closed by RRT towards a solution of its pose continued from the last waypoint ({why})', eng, [], z3.BoolVal(not okw), case, nomodel_case=case)
    if ev.get('closing_unfiltered'):
        # the RRT goal was solved without the robot shape: it must then be among the waypoints tested for collisions
        for s1, o in res:
            if o.disc != 0: continue
            for r_ in ev['rrt'][1:]:
                if r_['kind'] != 'ok': continue
                vs = [b for q, b in ev['coll'] if same(q, r_['path'][-1])]
                ck.decide(label + 'an RRT goal solved without the robot shape is tested for collisions', eng, list(s1.pc), z3.Or(vs) if vs else z3.BoolVal(True), case, nomodel_case=case)
    for ob in eng.obligations:
        ck.decide(label + f"{ob['kind']} unreachable: {ob['msg'][:50]}", eng, [ob['cond']], z3.BoolVal(True), case, nomodel_case=case)

def check_rrt_wiring(ck, case=None):
    """RRTPlanner::plan_rrt over a summary of dual_rrt_connect: a node is accepted only if the robot does not collide there AND the joint limits hold there;
    samples are the robot's own random_angles(); start, goal, step, tries and the stop flag are passed through; the path comes back node by node in order."""
    from .c09 import method_body
    from .c11 import kws_fn
    eng = ck.engine(unwind=8); rec = {}; install_collections(eng); install_dynkin(eng); install_cartesian(eng, rec)
    st = eng.new_state(); robot = mk_robot(eng, st); rref = eng.tmp_ref(st, 0, robot)
    ev = dict(coll=[], compl=[], samples=[], rrt=[])
    def coll(e, st_, fr, f, a):
        b = z3.Bool(f'collides{len(ev["coll"])}'); ev['coll'].append((e.deref(st_, a[1]), b)); return [(st_, b)]
    eng.overrides[kws_fn(eng, 'collides').name] = coll
    cons_cell = eng.tmp_ref(st, 0, Some(Opaque('constraints')))
    eng.overrides[method_body(eng, 'KinematicsWithShape', 'constraints').name] = lambda e, st_, fr, f, a: [(st_, cons_cell)]
    cb = [n for n in eng.bodies if n.startswith('constraints::<impl at') and n.endswith('::compliant')]
    rb = [n for n in eng.bodies if n.startswith('constraints::<impl at') and n.endswith('::random_angles')]
    if len(cb) != 1 or len(rb) != 1: raise Inconclusive('Constraints::compliant / random_angles not found')
    def compl(e, st_, fr, f, a):
        b = z3.Bool(f'compliant{len(ev["compl"])}'); ev['compl'].append((e.deref(st_, a[0]), e.deref(st_, a[1]), b)); return [(st_, b)]
    eng.overrides[cb[0]] = compl
    def rnd(e, st_, fr, f, a):
        q = jv(f'sample{len(ev["samples"])}'); ev['samples'].append((e.deref(st_, a[0]), q)); return [(st_, q)]
    eng.overrides[rb[0]] = rnd
    eng.model(r'as std::convert::TryFrom<&\[f64\]>>::try_from$', lambda e, st_, fr, f, a, m: [(st_, Ok(Agg(list(e.deref(st_, a[0]).items))))], front=True)
    eng.model(r'core::slice::<impl \[f64\]>::to_vec$|^std::slice::<impl \[f64\]>::to_vec$', lambda e, st_, fr, f, a, m: [(st_, VecV.dense(list(e.deref(st_, a[0]).items)))], front=True)
    probe_q = jv('node'); path = [jv(f'pathnode{i}') for i in range(3)]
    def dual(e, st_, fr, f, a):
        start, goal, is_free, sampler, step, tries, stop = a
        r = dict(start=e.deref(st_, start), goal=e.deref(st_, goal), step=step, tries=tries, stop=stop)
        qref = e.tmp_ref(st_, fr, VecV.dense(list(probe_q.items)))
        st_, r['free'] = e.call1(st_, fr, is_free, [qref])
        st_, r['sample'] = e.call1(st_, fr, sampler, [])
        ev['rrt'].append(r)
        return [(st_, Ok(VecV.dense([VecV.dense(list(p_.items)) for p_ in path])))]
    eng.overrides['rrt_to::dual_rrt_connect'] = dual
    if 'rrt_to::dual_rrt_connect' not in eng.bodies: raise Inconclusive('dual_rrt_connect not found')
    planner = Agg([F(z3.Real('rrt_step')), z3.Int('rrt_max_try'), False], 'rrt::RRTPlanner')
    start, goal = jv('start'), jv('goal'); stopf = eng.tmp_ref(st, 0, Opaque('stopflag'))
    c = [n for n in eng.bodies if n.startswith('rrt::<impl at') and n.endswith('::plan_rrt')]
    res = eng.call_body(st, eng.bodies[c[0]], [eng.tmp_ref(st, 0, planner), eng.tmp_ref(st, 0, start), eng.tmp_ref(st, 0, goal), rref, stopf])
    case = case or (lambda m=None: dict(scene='limits')); label = 'RRTPlanner::plan_rrt: '
    ck.states += len(res)
    okc = len(ev['rrt']) == 1
    ck.decide(label + 'one run of the bidirectional RRT', eng, [], z3.BoolVal(not okc), case, nomodel_case=case)
    if not okc: return
    r = ev['rrt'][0]
    ok = same(Agg(list(r['start'].items)), start) and same(Agg(list(r['goal'].items)), goal) and same(r['step'], planner.items[0]) and same(r['tries'], planner.items[1])
    ck.decide(label + 'start, goal, joint-space step and number of tries are passed through', eng, [], z3.BoolVal(not ok), case, nomodel_case=case)
    cv = [b for q, b in ev['coll'] if same(q, probe_q)]; lv = [b for cns, q, b in ev['compl'] if same(q, probe_q) and isinstance(cns, Opaque) and cns.kind == 'constraints']
    for s1, o in res:
        ctx = list(s1.pc)
        ck.decide(label + 'a node is accepted only if the robot does not collide there', eng, ctx + [zb(r['free'])], z3.Or(cv) if cv else z3.BoolVal(True), case, nomodel_case=case)
        ck.decide(label + 'a node is accepted only if the joint limits hold there', eng, ctx + [zb(r['free'])], z3.Not(z3.And(lv)) if lv else z3.BoolVal(True), case, nomodel_case=case)
        ck.witness(label + 'a node can be accepted', eng, *ctx, zb(r['free']))
        oks = len(ev['samples']) == 1 and isinstance(ev['samples'][0][0], Opaque) and ev['samples'][0][0].kind == 'constraints' and same(Agg(list(r['sample'].items)), ev['samples'][0][1])
        ck.decide(label + 'samples are the random_angles() of the robot limits', eng, ctx, z3.BoolVal(not oks), case, nomodel_case=case)
        okp = not isz(o.disc) and o.disc == 0 and isinstance(o.items[0], VecV) and o.items[0].is_dense() and len(o.items[0].ents) == len(path) and all(same(x, p_) for (g, x), p_ in zip(o.items[0].ents, path))
        ck.decide(label + 'the path comes back node by node, in order', eng, ctx, z3.BoolVal(not okp), case, nomodel_case=case)
    for ob in eng.obligations:
        ck.decide(label + f"{ob['kind']} unreachable: {ob['msg'][:50]}", eng, [ob['cond']], z3.BoolVal(True), case, nomodel_case=case)

def check_plan(ck, outcomes, nsol=2):
    """Cartesian::plan over summaries of probe_strategy (scripted Ok/Err per landing solution), with_intermediate_poses and the collision-aware robot"""
    from .c09 import method_body
    from .c11 import kws_fn
    eng = ck.engine(unwind=8); rec = {}; install_collections(eng, rec); install_dynkin(eng); install_cartesian(eng, rec)
    st = eng.new_state(); robot = mk_robot(eng, st); rref = eng.tmp_ref(st, 0, robot)
    pl = cartesian(rref, depth=1)
    ev = dict(coll=[], rik=[], wip=[], probe=[])
    def coll(e, st_, fr, f, a):
        b = z3.Bool(f'collides{len(ev["coll"])}'); ev['coll'].append((e.deref(st_, a[1]), b)); return [(st_, b)]
    eng.overrides[kws_fn(eng, 'collides').name] = coll
    def rik(e, st_, fr, f, a):
        k = len(ev['rik']); sols = [jv(f'landing{k}_{i}') for i in range(nsol)]
        ev['rik'].append(dict(pose=e.deref(st_, a[1]), prev=e.deref(st_, a[2]), sols=sols)); return [(st_, VecV.dense(sols))]
    eng.overrides[method_body(eng, 'KinematicsWithShape', 'inverse_continuing').name] = rik
    def wip(e, st_, fr, f, a):
        ev['wip'].append([e.deref(st_, x) for x in a[1:]]); return [(st_, VecV.dense([Opaque('annotated-poses')]))]
    eng.overrides[cfn(eng, 'with_intermediate_poses').name] = wip
    pbody = cfn(eng, 'probe_strategy')
    def probe(e, st_, fr, f, a):
        k = len(ev['probe']); r = {nm: (e.deref(st_, a[idx - 1]) if isinstance(a[idx - 1], RefV) else a[idx - 1]) for nm, idx in pbody.arg_names.items() if nm != 'self'}
        ev['probe'].append(r); kind = outcomes[k] if k < len(outcomes) else 'err'
        return [(st_, Ok(VecV.dense([Agg([jv(f'trace{k}'), flags(LAND)], 'cartesian::AnnotatedJoints')])) if kind == 'ok' else Err(Opaque('string')))]
    eng.overrides[pbody.name] = probe
    frm = jv('from'); land, park = free_pose('land'), free_pose('park'); steps = VecV.dense([free_pose('s0'), free_pose('s1')])
    res = eng.call_body(st, cfn(eng, 'plan'), [eng.tmp_ref(st, 0, pl), eng.tmp_ref(st, 0, frm), eng.tmp_ref(st, 0, land), steps, eng.tmp_ref(st, 0, park)])
    case = lambda m=None: dict(scene='', include=1); label = f'plan[strategies {list(outcomes[:nsol])}]: '
    ck.states += len(res)
    c0 = [b for q, b in ev['coll'] if same(q, frm)]
    if not c0: ck.c12_plan_tests_start = False
    want_ok = any(o == 'ok' for o in outcomes[:nsol]); n_ok = 0
    for s1, o in res:
        ctx = list(s1.pc)
        if isz(o.disc): raise Inconclusive('Ok/Err not separated')
        if o.disc == 0:
            n_ok += 1
            if c0: ck.decide(label + 'success only from a collision-free start configuration', eng, ctx, z3.Or(c0), case, nomodel_case=case)
            ck.decide(label + 'success only if some landing solution could be followed through', eng, ctx, z3.BoolVal(not want_ok), case, nomodel_case=case)
            tr = o.items[0]
            goods = [k for k, kind in enumerate(outcomes[:nsol]) if kind == 'ok']
            okt = isinstance(tr, VecV) and len(tr.ents) == 1 and tr.ents[0][0] is True
            ck.decide(label + 'the returned path is the path of one of the strategies that worked', eng, ctx,
                      z3.Not(z3.Or([eq6(tr.ents[0][1].items[0], jv(f'trace{k}')) for k in goods])) if okt and goods else z3.BoolVal(True), case, nomodel_case=case)
        else:
            if want_ok and c0: ck.decide(label + 'with a working strategy and a free start, planning succeeds whatever the schedule', eng, ctx + [z3.Not(z3.Or(c0))], z3.BoolVal(True), case, nomodel_case=case)
    ck.decide(label + ('vacuity: success reachable' if want_ok else 'no strategy works => error'), eng, [], z3.BoolVal((n_ok > 0) != want_ok), case, nomodel_case=case)
    okr = len(ev['rik']) == 1 and same(ev['rik'][0]['pose'], land) and same(ev['rik'][0]['prev'], frm)
    stack_src = [r_ for r_ in eng.kin_calls if r_['method'] == 'inverse_continuing' and same(r_['args'][0], land) and same(r_['args'][1], frm)]
    if not okr and len(stack_src) == 1 and not ev['rik']:
        # landing solutions taken from the kinematics without shape: allowed if every strategy tests its landing solution itself (recorded by check_probe)
        ev['rik'] = [dict(pose=land, prev=frm, sols=list(stack_src[0]['result'].items))]; okr = True; ck.c12_plan_filtered = False
    ck.decide(label + 'strategies = the solutions of the landing pose continued from the start configuration', eng, [], z3.BoolVal(not okr), case, nomodel_case=case)
    okw = len(ev['wip']) == 1 and same(ev['wip'][0][0], land) and same(ev['wip'][0][1], steps) and same(ev['wip'][0][2], park)
    if nsol: ck.decide(label + 'the stroke is densified from the given landing, stroke and parking poses', eng, [], z3.BoolVal(not okw), case, nomodel_case=case)
    if okr and nsol:
        sols = ev['rik'][0]['sols']
        okp = len(ev['probe']) == len(sols) and all(same(p_.get('work_path_start'), s_) and isinstance(p_.get('poses'), VecV) and len(p_['poses'].ents) == 1 and isinstance(p_['poses'].ents[0][1], Opaque) and p_['poses'].ents[0][1].kind == 'annotated-poses' for p_, s_ in zip(ev['probe'], sols))
        ck.decide(label + 'every landing solution is probed once, with the densified stroke', eng, [], z3.BoolVal(not okp), case, nomodel_case=case)
        okf = all(('from' in p_) and same(p_['from'], frm) for p_ in ev['probe']) and bool(ev['probe'])
        ck.decide(label + 'every strategy is told the start configuration to relocate from', eng, [], z3.BoolVal(not okf), case, nomodel_case=case)
    for ob in eng.obligations:
        ck.decide(label + f"{ob['kind']} unreachable: {ob['msg'][:50]}", eng, [ob['cond']], z3.BoolVal(True), case, nomodel_case=case)

PROBE_SCRIPTS_THOROUGH = [
    ([('ok2',), ('ok2',), ('ok2',)], 'ok'), ([('err', ('ok',)), ('err', ('err', 'ok')), ('err', ('ok',))], 'ok'), ([('ok1',), ('ok1',), ('err', ('err', 'err'))], 'ok'), ([('ok2',), ('err', ('ok',)), ('ok1',)], 'err'),
]
PROBE_SCRIPTS = [
    ([('ok1',), ('ok1',), ('ok1',)], 'ok'), ([('ok2',), ('ok1',), ('ok2',)], 'ok'), ([('ok1',), ('err', ('ok',)), ('ok1',)], 'ok'),
    ([('ok1',), ('err', ('err', 'ok')), ('ok1',)], 'ok'), ([('err', ('err', 'err')), ('ok1',), ('ok1',)], 'ok'), ([('ok1',), ('ok2',), ('err', ('ok',))], 'ok'),
    ([('ok1',), ('ok1',), ('ok1',)], 'err'),
]

def run(ck):
    ck.bounds = dict(interpolated='<= 4 poses per segment', stroke='<= 3 given stroke poses (4 thorough)', recursion='linear_recursion_depth <= 2 (3 thorough)', answers='2 per inverse call',
                     coefficients='one concrete non-default weight vector (2, 3/2, 5/4, 3/4, 1/2, 3)', probe='4 annotated poses (LAND, LIN_INTERP, TRACE, PARK), scripted step outcomes with symbolic values', plan='0 or 2 landing solutions')
    ck.assumptions += ['real arithmetic', 'what the kinematic stack answers is C01-C09 (answers reproduce the pose, respect the limits), what the collision-aware robot answers is C10/C11, what dual_rrt_connect returns is C13',
                       'slerp / rotation angle are oracles (some rotation / some non-negative angle determined by the arguments)', 'rayon: par_iter().any = any, find_map_any = ANY hit']
    check_add_intermediate(ck)
    for n in range(0, 5 if ck.tier == 'thorough' else 4): check_with_intermediate(ck, n)
    check_interpolate(ck)
    for d in range(0, 4 if ck.tier == 'thorough' else 3): check_step_adaptive(ck, d)
    scripts = PROBE_SCRIPTS + (PROBE_SCRIPTS_THOROUGH if ck.tier == 'thorough' else [])
    for sc, onb in scripts:
        for inc in (True, False): check_probe(ck, sc, onb, inc)
    check_rrt_wiring(ck)
    for oc in (('ok', 'ok'), ('ok', 'err'), ('err', 'ok'), ('err', 'err')): check_plan(ck, oc)
    check_plan(ck, (), nsol=0)
    eng0 = ck._engines[-1]; case = lambda m=None: dict(scene='', include=1)
    ck.decide('plan + probe_strategy: the landing solution is collision free (taken from the collision-aware robot, or tested by the strategy)', eng0, [],
              z3.BoolVal(not (getattr(ck, 'c12_plan_filtered', True) or getattr(ck, 'c12_strategy_checked', False))), case, nomodel_case=case)
    ck.decide('plan + probe_strategy: the start configuration is collision free (tested by plan, or by the strategy as the first waypoint)', eng0, [],
              z3.BoolVal(not (getattr(ck, 'c12_plan_tests_start', True) or getattr(ck, 'c12_start_checked', False))), case, nomodel_case=case)

if __name__ == '__main__':
    main(run, 'C12')
