"""C15 — Jacobian equals the geometric one; velocities/torques are its inverse/transpose.

(a) compute_jacobian (generic over `impl Kinematics`, executed with the robot as an ORACLE and scaled_axis as an oracle): column i is exactly
    ((F(q + eps e_i).t - F(q).t)/eps ; scaled_axis(F(q + eps e_i).R * F(q).R^-1)/eps), one forward call per column plus one for q.
(b) derivative identity for the OPW model: the C03 terms of `forward` (real MIR) are differentiated symbolically w.r.t. every joint and the solver decides
    d t/d joint_i = sigma_i * z_i x (t - o_i)  and  d R/d joint_i * R^T = [sigma_i z_i]x  with axis z_i and origin o_i taken from forward_with_joint_poses
    (real MIR) - this ties the finite-difference Jacobian to the six-axis model and its sign conventions; through tool/base wrappers by C09.
(c) torques* = J^T F, velocities* = X w with X = try_inverse(J) (oracle), isometry- and vector-based entry points agree (same scaled_axis oracle).
The step from (a)+(b) to "agrees within the differencing step" is Taylor's theorem (remainder O(eps * reach)); it is an analytic argument, not an SMT obligation.
scaled_axis (a matrix logarithm) and the SVD pseudo-inverse are oracles.
"""
import z3
from .common import *
from .robot import *
from . import c03
from mirsmt import poly
from mirsmt.models_na import Mat, Iso
from mirsmt.oracles import fresh_iso

def install_oracles(eng, rec):
    def fwd(e, st, fr, f, a, m):
        r = fresh_iso(e, 'F'); rec['forward'].append((e.deref(st, a[1]), r)); return [(st, r)]
    eng.model(r'^<impl Kinematics as (?:\w+::)*Kinematics>::forward$', fwd, front=True)
    def scaled_axis(e, st, fr, f, a, m):
        R = e.deref(st, a[0]); n = len(rec['scaled_axis'])
        v = Mat(3, 1, [F(z3.Real(f'logmap{n}_{k}')) for k in range(3)]); rec['scaled_axis'].append((R, v)); return [(st, v)]
    eng.model(r'quaternion::<impl .*>::scaled_axis$', scaled_axis, front=True)
    def try_inverse(e, st, fr, f, a, m):
        J = a[0]; X = Mat(6, 6, [F(z3.Real(f'inv_{i}_{k}')) for i in range(6) for k in range(6)]); b = z3.Bool('invertible')
        rec['try_inverse'].append((J, X, b)); return [(st, Enum(z3.If(b, 1, 0), [X], 'Option'))]
    eng.model(r'linalg::inverse::<impl .*>::try_inverse$', try_inverse, front=True)
    eng.model(r'na::SVD::<.*>::new$|linalg::svd::SVD::<.*>::new$', lambda e, st, fr, f, a, m: [(st, Opaque('svd', data=a[0]))], front=True)
    def pinv(e, st, fr, f, a, m):
        P = Mat(6, 6, [F(z3.Real(f'pinv_{i}_{k}')) for i in range(6) for k in range(6)]); b = z3.Bool('pinv_ok'); rec['pinv'].append((a[0], P, b))
        return [(st, Enum(z3.If(b, 0, 1), [P], 'Result'))]
    eng.model(r'SVD::<.*>::pseudo_inverse$', pinv, front=True)

def jfn(eng, name):
    c = [n for n in eng.bodies if n.startswith('jacobian::') and n.endswith('::' + name)] if name != 'compute_jacobian' else ['jacobian::compute_jacobian']
    if len(c) != 1: raise Inconclusive(f'jacobian::{name}: {len(c)} candidates')
    return eng.bodies[c[0]]

def part_a(ck):
    eng = ck.engine(unwind=8); rec = dict(forward=[], scaled_axis=[], try_inverse=[], pinv=[]); install_oracles(eng, rec)
    st = eng.new_state(); eps = z3.Real('eps'); st.assume(eps > 0)
    q = [z3.Real(f'q{i}') for i in range(6)]
    res = eng.call_body(st, jfn(eng, 'compute_jacobian'), [eng.tmp_ref(st, 0, Opaque('robot')), eng.tmp_ref(st, 0, Agg([F(x) for x in q])), F(eps)])
    if len(res) != 1: raise Inconclusive(f'compute_jacobian left {len(res)} states')
    st, J = res[0]; ck.states += 1
    case = lambda m=None: dict(clause='finite_difference')
    label = 'compute_jacobian: '
    base = [r for a, r in rec['forward'] if all(z3.is_true(z3.simplify(a.items[k].v == q[k])) for k in range(6))]
    ck.decide(label + 'one forward call at q and one per perturbed joint', eng, [], z3.BoolVal(len(rec['forward']) != 7 or len(base) != 1), case, nomodel_case=case)
    if len(base) != 1 or not isinstance(J, Mat): return
    F0 = base[0]
    for i in range(6):
        pert = [r for a, r in rec['forward'] if all(z3.is_true(z3.simplify(a.items[k].v == (q[k] + eps if k == i else q[k]))) for k in range(6))]
        ck.decide(label + f'column {i}: forward evaluated at q + eps*e_{i}', eng, [], z3.BoolVal(len(pert) != 1), case, nomodel_case=case)
        if len(pert) != 1: continue
        Fi = pert[0]
        for k in range(3):
            ck.decide(label + f'J[{k}][{i}] == (F_i.t - F.t)[{k}] / eps', eng, list(st.pc), J.at(k, i).v != (Fi.t.d[k].v - F0.t.d[k].v) / eps, case, nomodel_case=case)
        rel = eng.na['mmul'](Fi.R, eng.na['transpose'](F0.R))
        logs = [v for R, v in rec['scaled_axis'] if all(z3.is_true(z3.simplify(x.v == y.v)) for x, y in zip(R.d, rel.d))]
        ck.decide(label + f'column {i}: orientation part is the log map of F_i.R * F.R^-1', eng, [], z3.BoolVal(len(logs) != 1), case, nomodel_case=case)
        if len(logs) == 1:
            for k in range(3): ck.decide(label + f'J[{3 + k}][{i}] == scaled_axis(F_i.R F.R^-1)[{k}] / eps', eng, list(st.pc), J.at(3 + k, i).v != logs[0].d[k].v / eps, case, nomodel_case=case)

def part_new(ck):
    """Jacobian::new differentiates with exactly the step it was given (the property speaks of agreement 'to within the differencing step' for steps 1e-7..1e-5) and keeps the matrix compute_jacobian returned"""
    eng = ck.engine(unwind=8); rec = dict(forward=[], scaled_axis=[], try_inverse=[], pinv=[]); install_oracles(eng, rec)
    st = eng.new_state(); eps = z3.Real('eps'); st.assume(eps > 0)
    q = [z3.Real(f'q{i}') for i in range(6)]; calls = []
    Jm = Mat(6, 6, [F(z3.Real(f'J_{i}_{k}')) for i in range(6) for k in range(6)])
    def cj(e, st_, fr, f, a):
        calls.append((e.deref(st_, a[0]), e.deref(st_, a[1]), a[2], list(st_.pc))); return [(st_, Jm)]
    eng.overrides['jacobian::compute_jacobian'] = cj
    res = eng.call_body(st, jfn(eng, 'new'), [eng.tmp_ref(st, 0, Opaque('robot')), eng.tmp_ref(st, 0, Agg([F(x) for x in q])), F(eps)]); ck.states += len(res)
    case = lambda m=None: dict(clause='new_step')
    label = 'Jacobian::new: '
    ck.decide(label + 'compute_jacobian is called once on every path', eng, [], z3.BoolVal(len(calls) != len(res) or not res), case, nomodel_case=case)
    for rob, qs, e1, pc in calls:
        ck.decide(label + 'the robot passed on is the robot given', eng, [], z3.BoolVal(not (isinstance(rob, Opaque) and rob.kind == 'robot')), case, nomodel_case=case)
        ok = isinstance(qs, Agg) and len(qs.items) == 6
        ck.decide(label + 'six joints are passed on', eng, [], z3.BoolVal(not ok), case, nomodel_case=case)
        if ok:
            ck.decide(label + 'the joints passed on are the joints given', eng, pc, z3.Or([qs.items[k].v != q[k] for k in range(6)]), case, nomodel_case=case)
        ck.decide(label + 'the differencing step passed on is the step given', eng, pc, e1.v != eps, case, nomodel_case=case)
    for s1, out in res:
        m = out.items[0] if isinstance(out, Agg) and out.items else None
        ok = isinstance(m, Mat) and len(m.d) == 36
        ck.decide(label + 'the stored matrix is a 6x6 matrix', eng, [], z3.BoolVal(not ok), case, nomodel_case=case)
        if ok: ck.decide(label + 'the stored matrix is the one compute_jacobian returned', eng, list(s1.pc), z3.Or([x.v != y.v for x, y in zip(m.d, Jm.d)]), case, nomodel_case=case)

def part_b(ck):
    """d forward / d joint_i against axis x lever arm, from the real MIR of forward and forward_with_joint_poses"""
    eng, st, fwd, poses, pv, off, sg, j, q, sc = c03.setup(ck)
    R = poly.ring_for(eng, signs=sg)
    th, y, x = eng.trig.atan2s[0]; spsi, cpsi = eng.trig.pair(th); kroot = eng.trig.sqrt(x * x + y * y)
    R.rule([kroot, spsi], poly.from_z3(R, y)); R.rule([kroot, cpsi], poly.from_z3(R, x))
    axes = [2, 1, 1, 2, 1, 2]      # z y y z y z : rotation axis of joint i in its own link frame
    def P(t): return poly.from_z3(R, t)
    def ddj(p, i):
        """d/d joint_i of polynomial p: s_i' = sigma_i c_i, c_i' = -sigma_i s_i (q_i = joint_i*sigma_i - offset_i)"""
        sname, cname = sc[i][0].decl().name(), sc[i][1].decl().name()
        out = R.const(0)
        for mono, coef in p.t.items():
            md = dict(mono)
            for vn, sign_, other in ((sname, 1, cname), (cname, -1, sname)):
                e_ = md.get(vn, 0)
                if not e_: continue
                m2 = dict(md); m2[vn] = e_ - 1
                if m2[vn] == 0: del m2[vn]
                term = poly.Poly(R, {tuple(sorted(m2.items())): coef * e_ * sign_})
                out = out + term * R.var(z3.Real(other)) * P(sg[i])
        return out
    t = [P(fwd.t.d[k].v) for k in range(3)]; Rm = [[P(fwd.R.at(a_, b_).v) for b_ in range(3)] for a_ in range(3)]
    case = lambda m=None: dict(clause='derivative')
    ctx = list(st.pc)
    for i in range(6):
        Pi = poses.items[i]
        z = [P(Pi.R.at(k, axes[i]).v) * P(sg[i]) for k in range(3)]          # sigma_i * axis of joint i in the base frame
        o = [P(Pi.t.d[k].v) for k in range(3)]
        lever = [t[k] - o[k] for k in range(3)]
        cr = [z[1] * lever[2] - z[2] * lever[1], z[2] * lever[0] - z[0] * lever[2], z[0] * lever[1] - z[1] * lever[0]]
        for k in range(3):
            d = ddj(t[k], i) - cr[k]
            ck.decide(f'd t[{k}] / d joint_{i + 1} == sigma * (z_{i + 1} x (t - o_{i + 1}))[{k}] [normalised, residual terms={d.nterms()}]', eng, ctx, d.to_z3() != 0, case, nomodel_case=case)
        if ck.tier == 'thorough' or i in (0, 3, 5):
            # dR/dj R^T = skew(sigma z)
            dR = [[ddj(Rm[a_][b_], i) for b_ in range(3)] for a_ in range(3)]
            W = [[sum((dR[a_][l] * Rm[b_][l] for l in range(3)), R.const(0)) for b_ in range(3)] for a_ in range(3)]
            skew = [[R.const(0), -z[2], z[1]], [z[2], R.const(0), -z[0]], [-z[1], z[0], R.const(0)]]
            for a_ in range(3):
                for b_ in range(3):
                    d = W[a_][b_] - skew[a_][b_]
                    ck.decide(f'(dR/d joint_{i + 1} R^T)[{a_}][{b_}] == skew(sigma z_{i + 1}) [normalised, residual terms={d.nterms()}]', eng, ctx, d.to_z3() != 0, case, nomodel_case=case)

def part_c(ck):
    for name in ('torques_from_vector', 'torques', 'velocities_from_vector', 'velocities', 'velocities_fixed'):
        eng = ck.engine(unwind=8); rec = dict(forward=[], scaled_axis=[], try_inverse=[], pinv=[]); install_oracles(eng, rec)
        st = eng.new_state()
        Jm = Mat(6, 6, [F(z3.Real(f'J_{i}_{k}')) for i in range(6) for k in range(6)]); jac = Agg([Jm, F(z3.Real('eps'))], 'jacobian::Jacobian')
        v6 = [z3.Real(f'w{k}') for k in range(6)]; iso = Iso(Mat(3, 3, [F(z3.Real(f'r{i}{k}')) for i in range(3) for k in range(3)], 'rot'), Mat(3, 1, [F(x) for x in v6[:3]]))
        rj = eng.tmp_ref(st, 0, jac)
        if name.endswith('from_vector'): args = [rj, eng.tmp_ref(st, 0, Mat(6, 1, [F(x) for x in v6]))]
        elif name == 'velocities_fixed': args = [rj, F(v6[0]), F(v6[1]), F(v6[2])]
        else: args = [rj, eng.tmp_ref(st, 0, iso)]
        res = eng.call_body(st, jfn(eng, name), args); ck.states += len(res)
        case = lambda m=None: dict(clause='linear', method=name)
        if name in ('torques', 'velocities'):
            ok = len(rec['scaled_axis']) == 1 and same(rec['scaled_axis'][0][0], iso.R)
            ck.decide(f'Jacobian::{name}: angular part is scaled_axis of the given rotation', eng, [], z3.BoolVal(not ok), case, nomodel_case=case)
            if not ok: continue
            w = v6[:3] + [x.v for x in rec['scaled_axis'][0][1].d]
        elif name == 'velocities_fixed': w = v6[:3] + [RV(0)] * 3
        else: w = v6
        for s1, out in res:
            if name.startswith('torques'):
                for i in range(6): ck.decide(f'Jacobian::{name}: torque[{i}] == (J^T F)[{i}]', eng, list(s1.pc), out.items[i].v != sum(Jm.at(k, i).v * w[k] for k in range(6)), case, nomodel_case=case)
            else:
                ti = rec['try_inverse']
                ok = len(ti) == 1 and same(ti[0][0], Jm)
                ck.decide(f'Jacobian::{name}: the Jacobian itself is inverted', eng, [], z3.BoolVal(not ok), case, nomodel_case=case)
                if not ok: continue
                X, inv = ti[0][1], ti[0][2]
                if isinstance(out, Enum) and not isz(out.disc) and out.disc == 0:
                    sol = out.items[0]
                    use = X if not rec['pinv'] else None
                    goal = z3.Or([sol.items[i].v != sum(X.at(i, k).v * w[k] for k in range(6)) for i in range(6)])
                    ck.decide(f'Jacobian::{name}: invertible => joint velocities == J^-1 w', eng, list(s1.pc) + [inv], goal, case, nomodel_case=case)
                elif isinstance(out, Enum) and isz(out.disc):
                    ck.decide(f'Jacobian::{name}: an error only when neither inverse nor pseudo-inverse exists', eng, list(s1.pc) + [inv], out.disc != 0, case, nomodel_case=case)
                    sol = out.items[0]
                    if isinstance(sol, Agg): ck.decide(f'Jacobian::{name}: invertible => joint velocities == J^-1 w', eng, list(s1.pc) + [inv], z3.Or([sol.items[i].v != sum(X.at(i, k).v * w[k] for k in range(6)) for i in range(6)]), case, nomodel_case=case)
                else:
                    ck.decide(f'Jacobian::{name}: with an invertible Jacobian the call succeeds', eng, list(s1.pc) + [inv], z3.BoolVal(True), case, nomodel_case=case)

def run(ck):
    ck.bounds = dict(robot='arbitrary for the finite-difference structure; OPW model with all parameters/offsets/sign symbols free for the derivative identity', eps='any eps > 0')
    ck.assumptions += ['real arithmetic', 'scaled_axis / try_inverse / SVD are nalgebra oracles', 'Taylor remainder (analytic, not solved): |finite difference - derivative| <= eps/2 * sup|second derivative|, which is bounded by the reach of the arm',
                       'J X = I for X = try_inverse(J) (nalgebra contract), so J (X w) = w']
    part_a(ck); part_new(ck); part_b(ck); part_c(ck)

if __name__ == '__main__':
    main(run, 'C15')
