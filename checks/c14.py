"""C14 — single-joint offsets offered to search planners are legal and collision-free.

Encoded (real MIR): RobotBody::non_colliding_offsets + its closure (rayon par_iter/filter_map as iteration in unspecified order), with the robot
(constraints(), forward_with_joint_poses) as an oracle, Constraints::compliant and the collision kernel as logged oracles; plus the task list of
detect_collisions_with_skips under the skip sets {0..j-1} that non_colliding_offsets passes (shared with C10).
Obligations: the 12 candidates are initial[j -> from_j | to_j]; one is offered <=> it is compliant and the collision pass over it reports nothing;
the pass uses the link poses of THAT candidate, the body's own safety distances, and skips only pairs of two bodies that did not move
(links below j, base, environment) - which is what makes the answer equal to the full check when `initial` is collision-free.
"""
import z3
from .common import *
from . import c10
from mirsmt.oracles import install_collections, install_dynkin, DynKin, SetV, MapOracle

def run(ck):
    ck.bounds = dict(candidates='all 12', limits='arbitrary (oracle verdict per candidate)', environment='0..2 objects', table='arbitrary')
    ck.assumptions += ['initial is collision-free (premise of the property), so pairs of two unmoved bodies need no re-check', 'as C10 for everything inside parry3d / rayon']
    for has_limits, nenv, tool, base in ((True, 1, True, True), (False, 1, True, True), (True, 0, True, True), (True, 0, False, True), (True, 2, True, False)):
        eng = ck.engine(unwind=14); install_collections(eng); install_dynkin(eng)
        st = eng.new_state()
        body = c10.make_body(eng, tool, base, nenv, MapOracle('tbl'))
        # the limits are a real Constraints value (symbolic fields) whose compliant() is an oracle verdict: code that reads the fields instead of asking compliant() runs, and disagrees
        limits = Agg([Agg([F(z3.Real(f'lim_from{i}')) for i in range(6)]), Agg([F(z3.Real(f'lim_to{i}')) for i in range(6)]), Agg([F(z3.Real(f'lim_c{i}')) for i in range(6)]),
                      Agg([F(z3.Real(f'lim_tol{i}')) for i in range(6)]), F(z3.Real('lim_w'))], 'constraints::Constraints')
        cons_cell = eng.tmp_ref(st, 0, Some(limits) if has_limits else NONE())
        robot = DynKin('robot', cons_ref=cons_cell)
        init = [z3.Real(f'init{i}') for i in range(6)]; frm = [z3.Real(f'from{i}') for i in range(6)]; to = [z3.Real(f'to{i}') for i in range(6)]
        comp_calls, pass_calls = [], []
        def compliant(e, st_, fr, f, a):
            b = z3.Bool(f'compliant{len(comp_calls)}'); comp_calls.append((e.deref(st_, a[1]), b)); return [(st_, b)]
        eng.overrides[eng.find('::compliant', 'constraints::<impl at')] = compliant
        def kernel(e, st_, fr, f, a):
            b = z3.Bool(f'hit{len(pass_calls)}'); pass_calls.append(([e.deref(st_, x) if isinstance(x, RefV) else x for x in a], b)); return [(st_, VecV([(b, Agg([0, 2]))]))]
        eng.overrides[c10.cfn(eng, 'detect_collisions_with_skips')] = kernel
        args = [eng.tmp_ref(st, 0, body), eng.tmp_ref(st, 0, Agg([F(x) for x in init])), eng.tmp_ref(st, 0, Agg([F(x) for x in frm])), eng.tmp_ref(st, 0, Agg([F(x) for x in to])), eng.tmp_ref(st, 0, robot)]
        res = eng.call_body(st, eng.bodies[c10.cfn(eng, 'non_colliding_offsets')], args)
        if len(res) != 1: raise Inconclusive(f'non_colliding_offsets left {len(res)} states')
        st, out = res[0]; ck.states += 1
        label = f"non_colliding_offsets[limits={'yes' if has_limits else 'no'}, environment objects={nenv}, tool={int(tool)}, base={int(base)}]: "
        case = lambda m=None: dict(clause='offsets', limits=int(has_limits))
        ents = list(out.ents) if isinstance(out, VecV) else []
        ck.decide(label + 'twelve candidates are considered', eng, [], z3.BoolVal(len(ents) != 12 or len(pass_calls) != 12), case, nomodel_case=case)
        if len(ents) != 12 or len(pass_calls) != 12: continue
        fw = [r for r in eng.kin_calls if r['method'] == 'forward_with_joint_poses']
        k = 0
        for j in range(6):
            for tname, tgt in (('from', frm), ('to', to)):
                g, v = ents[k]; pargs, hit = pass_calls[k]
                want = [tgt[i] if i == j else init[i] for i in range(6)]
                ck.decide(label + f'candidate {k} is initial with joint {j} replaced by its {tname} value', eng, list(st.pc), z3.Or([v.items[i].v != want[i] for i in range(6)]), case, nomodel_case=case)
                fwk = [r for r in fw if same(r['args'][0], v)]
                ok = len(fwk) == 1 and same(pargs[1], fwk[0]['result']) and isinstance(pargs[4], SetV) and pargs[4].data == frozenset(range(j)) \
                     and isinstance(pargs[2], Agg) and getattr(pargs[2].items[2], 'name', None) == 'tbl' and isinstance(pargs[3], Enum) and pargs[3].disc == 1 and pargs[3].items[0].disc == 0
                ck.decide(label + f'candidate {k}: collision pass over the link poses of that candidate, own safety distances, links below {j} marked unmoved, first-collision mode', eng, [], z3.BoolVal(not ok), case, nomodel_case=case)
                comp = [b for a_, b in comp_calls if same(a_, v)]
                if has_limits:
                    ck.decide(label + f'candidate {k} is tested against the limits', eng, [], z3.BoolVal(len(comp) != 1), case, nomodel_case=case)
                    spec = z3.And(comp[0], z3.Not(hit)) if comp else z3.Not(hit)
                else: spec = z3.Not(hit)
                ck.decide(label + f'candidate {k} is offered <=> within limits and the collision pass reports nothing', eng, list(st.pc), zb(g) != spec, case, nomodel_case=case)
                k += 1
    # the pass with links 0..j-1 marked unmoved still tests every pair that involves a moved body
    for j in range(1, 6):
        for tool, base, nenv in ((True, True, 1),) + (((False, True, 2), (True, False, 0)) if ck.tier == 'thorough' else ()):
            c10.check_task_list(ck, tool, base, nenv, skip=range(j), prop='C14')

if __name__ == '__main__':
    main(run, 'C14')
