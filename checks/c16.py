"""C16 — parallelogram coupling is applied consistently in forward and inverse kinematics.

Encoded (real MIR): all 8 Kinematics methods of parallelogram::Parallelogram including the for_each closures.
Inner robot = oracle (arbitrary Kinematics implementation). driven != coupled enumerated over all 30 index pairs,
scaling a free real in [-2,2]. Obligations: one inner call of the same name with pose/j6/previous unchanged and (for the
forward direction) the joint vector with coupled reduced by scaling*driven; answers returned with coupled increased by
scaling*driven; the round trip through the wrapper's own forward adjustment is the identity (polynomial identity).
"""
import z3
from .common import *
from .c09 import method_body, free_pose, INVERSES
from mirsmt import poly
from mirsmt.oracles import install_dynkin, DynKin

def run(ck):
    ck.bounds = dict(pairs='all 30 (driven, coupled) with driven != coupled', scaling='[-2,2]', inner_robot='arbitrary (oracle), 2 answers per inverse call')
    ck.assumptions += ['real arithmetic (x + s*d - s*d == x exactly; in f64 this holds to 1 ulp, far inside the 1 um tolerance)', 'inner robot satisfies its own contract']
    pairs = [(d, c) for d in range(6) for c in range(6) if d != c]
    if ck.tier == 'quick':
        pairs = [(1, 2), (2, 1), (0, 5), (4, 3)] + ck.rng.sample(pairs, 4)
    meths = ['forward', 'forward_with_joint_poses'] + list(INVERSES)
    for d, c in pairs:
        for meth in meths:
            eng = ck.engine(); install_dynkin(eng)
            st = eng.new_state(); inner = DynKin('inner', nsol=2)
            sc = z3.Real('scaling'); st.assume(z3.And(sc >= -2, sc <= 2))
            w = Agg([BoxV([inner]), F(sc), d, c], 'parallelogram::Parallelogram')
            rw = eng.tmp_ref(st, 0, w)
            tcp = free_pose('tcp'); q = [z3.Real(f'q{i}') for i in range(6)]; joints = Agg([F(x) for x in q])
            prev = Agg([F(z3.Real(f'prev{i}')) for i in range(6)]); j6 = F(z3.Real('j6arg'))
            if meth in ('forward', 'forward_with_joint_poses'): args = [rw, eng.tmp_ref(st, 0, joints)]
            elif meth == 'inverse': args = [rw, eng.tmp_ref(st, 0, tcp)]
            elif meth == 'inverse_5dof': args = [rw, eng.tmp_ref(st, 0, tcp), j6]
            else: args = [rw, eng.tmp_ref(st, 0, tcp), eng.tmp_ref(st, 0, prev)]
            res = eng.call_body(st, method_body(eng, 'Parallelogram', meth), args)
            if len(res) != 1: raise Inconclusive(f'Parallelogram::{meth} left {len(res)} states')
            st, out = res[0]; ck.states += 1
            label = f'driven={d} coupled={c} {meth}: '
            def case(m): return dict(driven=d, coupled=c, scaling=model_float(m, sc), method=meth)
            def structural(name, ok): ck.decide(label + name, eng, [st.pcz()], z3.BoolVal(not ok), case, what=label + name + ' fails')
            def equal(name, lhs, rhs): ck.decide(label + name, eng, [st.pcz()], lhs != rhs, case, what=label + name + ' fails', vary=[sc])
            calls = [r for g, r in st.log]
            structural(f'exactly one inner call, to {meth}', all(g is True for g, _ in st.log) and len(calls) == 1 and calls[0]['method'] == meth)
            if not calls: continue
            call = calls[0]
            if meth in INVERSES:
                structural('pose passed unchanged', same(call['args'][0], tcp))
                if INVERSES[meth]: structural(f'{INVERSES[meth][0]} passed unchanged', same(call['args'][1], prev if INVERSES[meth][0] == 'previous' else j6))
                inner_sols = call['result']
                ok_shape = isinstance(out, VecV) and out.is_dense() and len(out.ents) == len(inner_sols.ents)
                structural('same number of answers, same order', ok_shape)
                if ok_shape:
                    for k, (x_in, x_out) in enumerate(zip(inner_sols.items, out.items)):
                        for i in range(6):
                            want = x_in.items[i].v + (sc * x_in.items[d].v if i == c else 0)
                            equal(f'answer {k} joint {i} == inner' + (' + scaling*driven' if i == c else ''), x_out.items[i].v, want)
                        # mapping the answer back through the wrapper's forward adjustment gives the inner answer
                        back = x_out.items[c].v - sc * x_out.items[d].v
                        equal(f'answer {k}: forward adjustment of the answer restores the inner coupled joint', back, x_in.items[c].v)
            else:
                structural('inner result returned unchanged', same(out, call['result']))
                jin = call['args'][0]
                for i in range(6):
                    want = q[i] - (sc * q[d] if i == c else 0)
                    equal(f'inner joint {i} == given' + (' - scaling*driven' if i == c else ''), jin.items[i].v, want)
            ck.engine_obligations(eng, label=label)

if __name__ == '__main__':
    main(run, 'C16')
