"""C19 — parameter YAML round-trips and every documented syntax variant parses (TREE level).

Encoded (real MIR): Parameters::from_yaml_file AFTER the text has been loaded (std::fs and YamlLoader::load_from_str are oracles returning a symbolic
yaml_rust2::Yaml tree), read_offsets, read_sign_corrections, parse_degrees, and the constant format template of Parameters::to_yaml read from the MIR.
The tree has the documented shape; every geometric scalar is independently an Integer or a Real (symbolic type flag, symbolic value), `dof` sits at the top level
(as the documentation and to_yaml show it), inside the geometric block (as the bundled 5-DOF file has it) or is absent, arrays have 5 or 6 entries, offsets are
Integer | Real | "deg(x)" | "x". Obligations: Ok(p) with exactly those values (deg(x) -> x*pi/180, padding of the 6th entry, J6 sign 0 for dof 5), malformed trees give Err,
no panic obligation is reachable (an empty document list included). Not applicable part: the YAML scanner, Rust's float printing and "arbitrary bytes never panic".
"""
import z3
from .common import *
from mirsmt import models_yaml as Y

GEO = 'a1 a2 b c1 c2 c3 c4'.split()

def pf_fn(eng, name):
    c = [n for n in eng.bodies if n.startswith('parameters_from_file::<impl at') and n.endswith('::' + name)]
    if len(c) != 1: raise Inconclusive(f'{name}: {len(c)} candidates')
    return eng.bodies[c[0]]

def build(ck, dof_place, n_signs, off_kinds, drop=None, empty_docs=False, n_offsets=None):
    eng = ck.engine(unwind=10, pi_rational=False); rec = {}; Y.install(eng, rec)
    vals = {k: z3.Real(f'v_{k}') for k in GEO}; isint = {k: z3.Bool(f'int_{k}') for k in GEO}
    geo = {k: Y.ynum(vals[k], isint[k]) for k in GEO if k != drop}
    dofv = z3.Int('dof')
    top = {}
    if dof_place == 'nested': geo['dof'] = Y.ynum(z3.ToReal(dofv), True)
    elif dof_place == 'top': top['dof'] = Y.ynum(z3.ToReal(dofv), True)
    top['opw_kinematics_geometric_parameters'] = Y.yhash(geo)
    sg = [z3.Int(f'sign{i}') for i in range(6)]
    if n_signs is not None: top['opw_kinematics_joint_sign_corrections'] = Y.yarr([Y.ynum(z3.ToReal(sg[i]), True) for i in range(n_signs)])
    offv = [z3.Real(f'off{i}') for i in range(8)]
    if off_kinds is not None:
        ents = []
        for i, kd in enumerate(off_kinds):
            ents.append(Y.ynum(offv[i], kd == 'int') if kd in ('int', 'real') else Y.ystr('deg(x)' if kd == 'deg' else ('x' if kd == 'plain' else 'junk'), offv[i]))
        top['opw_kinematics_joint_offsets'] = Y.yarr(ents)
    rec['docs'] = [] if empty_docs else [Y.yhash(top)]
    st = eng.new_state(); st.assume(z3.Or(dofv == 5, dofv == 6))
    res = eng.call_body(st, pf_fn(eng, 'from_yaml_file'), [Opaque('path')])
    ck.states += len(res)
    return eng, res, vals, isint, dofv, sg, offv

def run(ck):
    ck.bounds = dict(tree='documented shape; scalar types symbolic; arrays of 5 or 6', text='NOT covered: scanner, float printing, arbitrary bytes')
    ck.assumptions += ['yaml_rust2 accessors modelled: Index<&str> (BadValue when absent), as_f64 = Real only, as_i64 = Integer only, as_vec = Array only', 'str::parse::<f64> returns the number the text spells', 'real arithmetic, PI as pi']
    variants = [('top', 6, ['int', 'real', 'deg', 'plain', 'real', 'deg']), ('nested', 5, ['real', 'int', 'deg', 'real', 'int']), (None, None, None), ('top', 5, ['deg'] * 6), ('nested', 6, ['int'] * 6)]
    if ck.tier == 'quick': variants = variants[:4]
    for dof_place, n_signs, off_kinds in variants:
        eng, res, vals, isint, dofv, sg, offv = build(ck, dof_place, n_signs, off_kinds)
        label = f'from_yaml_file[dof {dof_place}, {n_signs} signs, offsets {off_kinds}]: '
        def case(m=None):
            c = dict(clause='tree', dof_place=str(dof_place), n_signs=-1 if n_signs is None else n_signs, off_kinds='/'.join(off_kinds) if off_kinds else 'none')
            if m is not None:
                c['ints'] = [int(z3.is_true(m.eval(isint[k], model_completion=True))) for k in GEO]; c['dof'] = int(str(m.eval(dofv, model_completion=True)))
            return c
        for s1, out in res:
            ctx = list(s1.pc)
            if isz(out.disc):
                ck.decide(label + 'a documented tree is accepted (Ok) whatever the numeric type of each scalar', eng, ctx, out.disc != 0, case, nomodel_case=case, vary=()); continue
            if out.disc != 0:
                ck.decide(label + 'a documented tree is accepted (Ok) whatever the numeric type of each scalar', eng, ctx, z3.BoolVal(True), case, nomodel_case=case); continue
            p = out.items[0]
            for i, k in enumerate(GEO): ck.decide(label + f'{k} read back', eng, ctx, p.items[i].v != vals[k], case, nomodel_case=case)
            want_dof = dofv if dof_place else z3.IntVal(6)
            ck.decide(label + 'dof read where the documentation (top level) or the bundled file (nested) puts it; 6 when absent', eng, ctx, zi(p.items[9]) != want_dof, case, nomodel_case=case)
            signs = p.items[8].items
            for i in range(6):
                if n_signs is None: w = z3.IntVal(1)
                elif i < n_signs: w = sg[i]
                else: w = z3.IntVal(0)
                if i == 5: w = z3.If(want_dof == 5, 0, w)
                got = signs[i]; got = z3.ToInt(got) if isz(got) and z3.is_real(got) else zi(got)
                ck.decide(label + f'sign correction {i}', eng, ctx, got != w, case, nomodel_case=case)
            offs = p.items[7].items
            for i in range(6):
                if off_kinds is None or i >= len(off_kinds): w = z3.RealVal(0)
                elif off_kinds[i] == 'deg': w = offv[i] * PI / 180
                else: w = offv[i]
                ck.decide(label + f'offset {i}', eng, ctx, offs[i].v != w, case, nomodel_case=case)
        for ob in eng.obligations: ck.decide(label + f"{ob['kind']} unreachable: {ob['msg'][:40]}", eng, [ob['cond']], z3.BoolVal(True), case, nomodel_case=case)
    # malformed trees: error values, never a panic
    for nm, kw, why in (('missing field c2', dict(dof_place='top', n_signs=6, off_kinds=['real'] * 6, drop='c2'), 'Err'), ('4 sign corrections', dict(dof_place='top', n_signs=4, off_kinds=['real'] * 6), 'Err'),
                        ('7 offsets', dict(dof_place='top', n_signs=6, off_kinds=['real'] * 7), 'Err'), ('an offset that is not a number', dict(dof_place='top', n_signs=6, off_kinds=['real', 'junk', 'real', 'real', 'real', 'real']), 'Err'),
                        ('an empty document list', dict(dof_place='top', n_signs=6, off_kinds=None, empty_docs=True), 'Err')):
        eng, res, *_ = build(ck, **kw)
        case = lambda m=None, nm=nm: dict(clause='malformed', what=nm)
        for s1, out in res:
            ok = (not isz(out.disc)) and out.disc == 1
            ck.decide(f'from_yaml_file[{nm}]: an error value is returned', eng, list(s1.pc), z3.BoolVal(not ok), case, nomodel_case=case)
        for ob in eng.obligations: ck.decide(f"from_yaml_file[{nm}]: {ob['kind']} unreachable: {ob['msg'][:40]}", eng, [ob['cond']], z3.BoolVal(True), case, nomodel_case=case)
        if not res and not eng.obligations: ck.decide(f'from_yaml_file[{nm}]: returns', eng, [], z3.BoolVal(True), case, nomodel_case=case)
    # to_yaml: template read from the MIR constant
    bodies, _ = mirdump.load(REPO)
    import re
    txt = open(mirdump.dump(REPO)[0]).read()
    m = re.search(r'fn parameters::opw_kinematics::<impl at [^>]*>::to_yaml\(.*?\n\}\n', txt, re.S)
    tcase = lambda m_=None: dict(clause='to_yaml')
    tpl = re.search(r'const (b?"[^\n]*opw_kinematics_geometric_parameters[^\n]*")', m.group(0)) if m else None
    ok = False
    if tpl:
        t = tpl.group(1)
        top_level_dof = re.search(r'\\n(?:[^ \\]|\\x[0-9a-f]{2})*dof: ', t) is not None and '\\n  dof' not in t.split('opw_kinematics_joint_offsets')[-1]
        ok = 'opw_kinematics_joint_offsets' in t and 'opw_kinematics_joint_sign_corrections' in t and top_level_dof
        ck.notes.append('to_yaml template: ' + t[:300])
    eng = ck.engine()
    ck.decide('to_yaml: emits the geometric block, offsets, sign corrections and a TOP-LEVEL dof entry (where the reader and the documentation look)', eng, [], z3.BoolVal(not ok), tcase, nomodel_case=tcase)

    # the offset formatter of to_yaml: the bare literal 0 (which reads back as exactly 0) is written only for an offset that IS zero at the printed precision
    # (4 decimals of a degree); every other offset goes through deg(<degrees>)
    eng = ck.engine()
    eng.model(r'^<str as std::string::ToString>::to_string$', lambda e, st_, fr, f, a, m: [(st_, e.deref(st_, a[0]))], front=True)
    todeg = []
    def to_degrees(e, st_, fr, f, a, m):
        v = e.binop('Mul', a[0], F(PI / 180)) if False else F(a[0].v * 180 / PI, a[0].nan, a[0].inf); todeg.append((a[0], v)); return [(st_, v)]
    eng.model(r'core::f64::<impl f64>::to_degrees$', to_degrees, front=True)
    st = eng.new_state(); x = z3.Real('offset'); st.assume(z3.And(x >= -7, x <= 7))
    dname = [n for n in eng.bodies if n.endswith('utils::deg') or n == 'utils::deg']
    if len(dname) != 1: raise Inconclusive(f'utils::deg: {len(dname)} candidates')
    res = eng.call_body(st, eng.bodies[dname[0]], [eng.tmp_ref(st, 0, F(x))])
    ck.states += len(res); lit = 0; fmt = 0
    for s1, out in res:
        if isinstance(out, StrV):
            lit += 1
            ck.decide(f'to_yaml offset formatter: the bare literal {out.s!r} is written only for an offset that is zero at the printed precision (|x| < 0.00005 deg)', eng, list(s1.pc),
                      z3.Or(x * 180 / PI >= z3.Q(5, 100000), x * 180 / PI <= -z3.Q(5, 100000)) if out.s.strip() in ('0', '0.0') else z3.BoolVal(True), tcase, nomodel_case=tcase, vary=[x])
        else:
            fmt += 1
            okd = len(todeg) == 1 and same(todeg[0][0], F(x))
            ck.decide('to_yaml offset formatter: every other offset is written as deg(<the offset converted to degrees>)', eng, list(s1.pc), z3.BoolVal(not okd), tcase, nomodel_case=tcase)
    ck.decide('to_yaml offset formatter: both forms are reachable', eng, [], z3.BoolVal(lit == 0 or fmt == 0), tcase, nomodel_case=tcase)

if __name__ == '__main__':
    main(run, 'C19')
