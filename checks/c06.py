"""C06 — 5-DOF inverse kinematics keeps the tool point exact and J6 as requested.

inverse_intern_5_dof: position cross-check dominance, J1..J5 finite/normalised, J6 = the caller's value term-identically (shared with C01 Part A,
re-run here for this kernel). Entry points: inverse_5dof / inverse_continuing_5dof return the caller's J6 (explicit argument / previous J6);
a robot declared dof = 5 answers inverse (J6 = 0) and inverse_continuing through the 5-DOF kernel with a FINITE J6, normalised, sorted and
filtered like the 6-DOF ones. Tool-axis equality and presence of the originating J1..J5 are judged natively by the replay battery only
(their solver form needs the C02 lemma chain on this kernel; see DESIGN).
"""
from .common import *
from . import ikentry, c01

def run(ck):
    ck.bounds = dict(signs='enumerated patterns', offsets='|offset| <= 2pi', kernel='n <= 2 answers (0..3 thorough)')
    ck.assumptions += ['real arithmetic', 'C03 (forward == link chain)']
    mirdump.load(REPO); ensure_replay()
    jobs = [('checks.c01', 'part_a', ('inverse_intern_5_dof', sg, False, True)) for sg in c01.sign_patterns(ck)[:2 if ck.tier == 'quick' else 8]]
    ck.parallel(jobs)
    ikentry.run_props(ck, ('C06',))

if __name__ == '__main__':
    main(run, 'C06')
