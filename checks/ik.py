"""Shared harness for the inverse-kinematics entry points of OPWKinematics (C01, C04, C05b, C06, C08).

Part A  `intern(...)`: inverse_intern / inverse_intern_5_dof executed whole from MIR (self.forward -> oracle pose,
         angle_to -> oracle angle); gives the guarded result list and the records needed for dominance obligations.
Part B  `entry(...)`:  inverse / inverse_continuing / inverse_5dof / inverse_continuing_5dof executed from MIR with
         inverse_intern* replaced by their SUMMARY (a list of n arbitrary finite vectors in [-pi,pi], which is what
         Part A proves about them), everything else real code: kinematic_singularity, is_valid, are_angles_close,
         normalize_near, the singular-candidate block, sort_by_closeness (+ comparator closures), constraint filter.
"""
import z3
from .common import *
from .robot import *
from .c09 import free_pose
from mirsmt.models_na import Mat, Iso
from mirsmt.oracles import fresh_iso

TOL = RV('1/1000000') * (1 + RV('1/1000000000'))

def install_pose_oracles(eng, rec):
    """self.forward -> fresh pose (logged with its argument); angle_to -> fresh non-negative angle (logged)"""
    c = [n for n in eng.bodies if n.startswith('kinematics_impl::<impl at') and n.endswith('::forward')]
    if len(c) != 1: raise Inconclusive('OPWKinematics::forward not found')
    def fwd(e, st, fr, f, a):
        r = fresh_iso(e, 'F'); rec['forward'].append((e.deref(st, a[1]), r)); return [(st, r)]
    eng.overrides[c[0]] = fwd
    def angle_to(e, st, fr, f, a, m):
        v = fresh('angle'); e.side.append(v >= 0); e.side_lin.append(v >= 0)
        rec['angle_to'].append((e.deref(st, a[0]), e.deref(st, a[1]), v)); return [(st, F(v))]
    eng.model(r'quaternion::<impl .*>::angle_to$', angle_to, front=True)
    def norm(e, st, fr, f, a, m):
        v = e.deref(st, a[0]); r = e.na['norm'](v); rec['norm'].append((v, r)); return [(st, r)]
    eng.model(r'na::base::norm::<impl .*>::norm$', norm, front=True)

def poisonable_pose(tag, full=True):
    """pose whose every component (full) or every translation component may independently be non-finite"""
    def f(n): return F(z3.Real(n), z3.Bool(n + '_nan') if (full or '_t' in n) else False)
    return Iso(Mat(3, 3, [f(f'{tag}_r{i}{k}') for i in range(3) for k in range(3)], 'rot'), Mat(3, 1, [f(f'{tag}_t{i}') for i in range(3)]))

def intern(ck, fname, signs, dof=6, poison=False, j6=None):
    eng = ck.engine(unwind=8)
    eng.trig.expand = False
    params, pv, off, sign = make_params(sign=list(signs), dof=dof)
    robot = make_robot(params)
    st = eng.new_state()
    for o in off: st.assume(z3.And(o >= -2 * PI, o <= 2 * PI))
    pose = poisonable_pose('pose', full=(ck.tier == 'thorough')) if poison else free_pose('pose')
    rec = dict(forward=[], angle_to=[], norm=[])
    install_pose_oracles(eng, rec)
    rr = eng.tmp_ref(st, 0, robot); rp = eng.tmp_ref(st, 0, pose)
    args = [rr, rp] + ([j6] if j6 is not None else [])
    res = eng.call_body(st, opw_fn(eng, fname), args)
    if len(res) != 1: raise Inconclusive(f'{fname} left {len(res)} states')
    st, out = res[0]; ck.states += 1
    return dict(eng=eng, st=st, out=out, pose=pose, rec=rec, pv=pv, off=off, sign=sign)

def norm_of_diff(rec, a, b):
    """the value the code's own `(a - b).norm()` produced (looked up in the log of norm calls), or None"""
    for v, r in rec['norm']:
        if len(v.d) == len(a.d) and all(z3.is_true(z3.simplify(x.v == p.v - q.v)) for x, p, q in zip(v.d, a.d, b.d)): return r
    return None
