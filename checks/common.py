"""Shared machinery of the per-property checks: solver queries with accounting, native replay,
known findings, evidence files, exit codes (0 pass / 1 violation / 2 inconclusive)."""
import json, os, subprocess, sys, time, hashlib, random, traceback
import z3

VERIF = os.path.dirname(os.path.dirname(os.path.abspath(__file__)))
REPO = os.environ.get('VERIF_REPO', '/repo')
sys.path.insert(0, VERIF)
from mirsmt import mirdump
from mirsmt.symex import Engine, Inconclusive, State, Frame, HARNESS
from mirsmt.values import *

class Violation(Exception): pass

def model_float(m, t, default=0.0):
    """float value of z3 term t in model m (algebraic numbers approximated)"""
    v = m.eval(t, model_completion=True)
    if z3.is_rational_value(v): return v.numerator_as_long() / v.denominator_as_long()
    if z3.is_algebraic_value(v): return float(v.approx(20).as_fraction())
    if z3.is_int_value(v): return float(v.as_long())
    try: return float(v.as_decimal(17).rstrip('?'))
    except Exception: return default

class Check:
    def __init__(s, pid, tier='quick', seed=0):
        s.pid = pid; s.tier = tier; s.seed = seed; s.t0 = time.time()
        s.rng = random.Random(seed * 7919 + int(pid[1:]))
        s.queries = []           # dict(name, result, s)
        s.solver_s = 0.0
        s.violations = []        # (what, replay_path)
        s.known_hits = []
        s.inconclusive = []
        s.samples = []
        s.functions = {}
        s.models_used = {}
        s.assumptions = []
        s.bounds = {}
        s.validated = 0
        s.states = 0; s.transitions = 0
        s.notes = []
        s.timeout_ms = 20000 if tier == 'quick' else 300000
        s.known = load_known().get(pid, [])
        s.mirinfo = {}
        s.replay_cases = 0
        s.diffq = []             # thorough tier: a sample of proved queries re-decided by two other solvers
    # ---- engine ----
    def engine(s, **kw):
        bodies, info = mirdump.load(REPO); s.mirinfo = info
        e = Engine(bodies, repo=REPO, **kw)
        s._engines = getattr(s, '_engines', []) + [e]
        return e
    def absorb(s, eng):
        """account the work of an engine run in the evidence"""
        s.transitions += eng.stats['stmts']
        for k, v in eng.inlined_fns.items(): s.functions[k] = s.functions.get(k, 0) + v
        for k, v in eng.used_models.items(): s.models_used[k] = s.models_used.get(k, 0) + v
    # ---- solver ----
    def sliced(s, eng, fs, max_size=400):
        """cone-of-influence slice: keep the formulas fs that are small or mention the goal's variables, and only those definitional side
        constraints that (transitively) share a variable with them. Dropping conjuncts is sound for an unsat verdict."""
        fs = [f for f in fs if f is not True]
        goal = fs[-1]
        keep = [f for f in fs[:-1] if isz(f) and eng.size_of(f) <= max_size] + [goal]
        cone = set()
        for f in keep:
            if isz(f): cone |= eng.vars_of(f)
        pool = [(c, eng.vars_of(c)) for c in eng.side]
        chosen = [False] * len(pool); changed = True
        while changed:
            changed = False
            for i, (c, vs) in enumerate(pool):
                if not chosen[i] and (vs & cone): chosen[i] = True; cone |= vs; changed = True
        return keep + [c for i, (c, _) in enumerate(pool) if chosen[i]]
    def query(s, name, eng, *fs, timeout=None, extra_side=True):
        """check satisfiability of side ∧ fs; returns ('sat'|'unsat'|'unknown', model|None)"""
        sol = z3.Solver(); sol.set('timeout', timeout or s.timeout_ms)
        if eng is not None and extra_side: sol.add(eng.side)
        for f in fs:
            if f is True: continue
            if f is False: sol.add(z3.BoolVal(False)); continue
            sol.add(f)
        t = time.time(); r = sol.check(); dt = time.time() - t; s.solver_s += dt
        res = 'sat' if r == z3.sat else ('unsat' if r == z3.unsat else 'unknown')
        s.queries.append(dict(name=name, result=res, s=round(dt, 3)))
        if s.tier == 'thorough' and res == 'unsat' and not name.startswith('witness') and len(s.diffq) < 60 and (len(s.queries) % 7 == 1 or len(s.diffq) < 10):
            try:
                txt = sol.to_smt2()
                if len(txt) < 400000: s.diffq.append((name, txt))
            except Exception: pass
        if len(s.samples) < 4 and res == 'unsat':
            try:
                txt = sol.to_smt2()
                if len(txt) < 6000: s.samples.append(dict(obligation=name, result=res, smt2=txt))
                else: s.samples.append(dict(obligation=name, result=res, smt2_head=txt[:1500], smt2_bytes=len(txt)))
            except Exception: pass
        return res, (sol.model() if r == z3.sat else None)
    def prove(s, name, eng, *fs, **kw):
        """fs is path ∧ ¬goal; 'unsat' = proved. Returns model if sat, None if proved; unknown is recorded as inconclusive."""
        res, m = s.query(name, eng, *fs, **kw)
        if res == 'unknown': s.inconclusive.append(f'solver unknown/timeout on {name}')
        return res, m
    def witness(s, name, eng, *fs, **kw):
        """vacuity guard: fs must be satisfiable"""
        res, m = s.query('witness: ' + name, eng, *fs, **kw)
        if res == 'unsat': s.inconclusive.append(f'vacuity: {name} is unreachable/unsatisfiable')
        elif res == 'unknown': s.notes.append(f'witness {name}: solver unknown (not fatal)')
        return m
    def engine_obligations(s, eng, *ctx, kinds=('panic', 'unwind', 'unreachable'), label=''):
        """discharge the obligations the executor collected; returns list of (obligation, model) that are satisfiable"""
        bad = []
        for ob in eng.obligations:
            if ob['kind'] not in kinds: continue
            res, m = s.prove(f"{label}{ob['kind']}: {ob['msg'][:50]} @ {ob['where'][-60:]}", eng, ob['cond'], *ctx)
            if res == 'sat': bad.append((ob, m))
        return bad
    # ---- replay ----
    def replay(s, case):
        """run the real code on a concrete case through the replay binary; returns dict (reproduced: bool, ...)"""
        s.replay_cases += 1
        exe = ensure_replay()
        args = [exe, s.pid] + [f'{k}={fmt_arg(v)}' for k, v in case.items()]
        r = subprocess.run(args, capture_output=True, text=True, timeout=120)
        out = {}
        for line in r.stdout.splitlines():
            if '=' in line:
                k, v = line.split('=', 1); out[k.strip()] = v.strip()
        out['exit'] = r.returncode
        if r.returncode not in (0, 1) and 'panicked' in r.stderr: out['panic'] = r.stderr.strip()[-300:]
        out['reproduced'] = out.get('reproduced') == 'true'
        return out
    def report(s, what, case, roles=None, soft=False):
        """a solver counterexample: replay, classify, record. Returns the role name if it is a known finding, else None"""
        rp = s.replay(case)
        path = os.path.join(VERIF, 'replays', f"{s.pid}-{hashlib.sha256(json.dumps(case, sort_keys=True, default=str).encode()).hexdigest()[:12]}.json")
        os.makedirs(os.path.dirname(path), exist_ok=True)
        json.dump(dict(property=s.pid, what=what, case=case, native=rp), open(path, 'w'), indent=1, default=str)
        if len(s.samples) < 12: s.samples.append(dict(counterexample=what, case={k: (v if not isinstance(v, float) else repr(v)) for k, v in case.items()}, native=rp))
        if not rp['reproduced']:
            if not soft: s.inconclusive.append(f'counterexample for "{what}" did not reproduce natively: {path}')
            s.last_noreplay = path
            return '__noreplay__'
        for kf in s.known:
            if kf.get('status') != 'open': continue
            pred = (roles or {}).get(kf['role'])
            if pred is not None and pred(case):
                line = f"KNOWN-FINDING: property={s.pid} {kf['what']}"
                if line not in s.known_hits: s.known_hits.append(line); print(line, flush=True)
                return kf['role']
        s.violations.append((what, path))
        print(f'VIOLATION property={s.pid} replay={path}', flush=True)
        print(f'  {what}: {json.dumps(case, default=str)[:600]}', flush=True)
        return None
    def decide(s, name, eng, ctx, goal, case_fn, what=None, roles=None, role_excl=None, vary=(), tries=6, delta=1e-3, abstract=False, nomodel_case=None, slice_=False):
        """prove (ctx => not goal). On sat: replay; known roles are excluded and the query repeated; a counterexample that
        does not reproduce natively (typically a model sitting exactly on a floating-point decision boundary) is blocked with a
        neighbourhood of radius delta in the `vary` variables and the query repeated. Returns 'unsat' | 'sat' | 'unknown' | 'noreplay'.
        abstract=True: first try the LINEAR ABSTRACTION of the query (every non-linear subterm replaced by a fresh constant, linear side
        constraints only) - its unsat implies unsat of the real query (slicing, DESIGN 3.6). nomodel_case: a native search case to run when
        the solver cannot produce a model (structural obligations over oracles): only a natively reproduced failure becomes a VIOLATION."""
        if slice_:
            res, _ = s.query(name + ' [sliced]', None, *s.sliced(eng, list(ctx) + [goal]))
            if res == 'unsat': return 'unsat'
        if abstract:
            res, _ = s.query(name + ' [linear abstraction]', None, *eng.side_lin, *[eng.linearize(zb(x)) for x in list(ctx) + [goal] if x is not True])
            if res == 'unsat': return 'unsat'
        excl, blocked, nore = [], [], 0
        for attempt in range(tries):
            tag = (' (known roles excluded)' if excl else '') + (f' (retry {nore})' if nore else '')
            res, m = s.query(name + tag, eng, *ctx, goal, *excl, *blocked, timeout=(int(os.environ.get('VERIF_FALLBACK_MS', '3000')) if ((abstract or slice_) and nomodel_case is not None) else None))
            if res == 'unsat':
                if nore:
                    s.inconclusive.append(f'{name}: {nore} solver counterexample(s) did not reproduce natively and the rest of the space is proved; last: {s.last_noreplay}')
                    return 'noreplay'
                return res
            if res == 'unknown':
                if nomodel_case is not None:
                    role = s.report(what or (name + ' fails'), nomodel_case(), roles, soft=True)
                    if role == '__noreplay__':
                        s.inconclusive.append(f'{name}: not proved (solver unknown) and the native search found no failing input: {s.last_noreplay}'); return 'unknown'
                    if role is not None and role_excl and role in role_excl: excl.append(role_excl[role]); continue
                    return 'sat'
                s.inconclusive.append(f'solver unknown/timeout on {name}'); return res
            role = s.report(what or (name + ' fails'), case_fn(m), roles, soft=True)
            if role == '__noreplay__':
                nore += 1
                if not vary: break
                blocked.append(z3.And([z3.Or(v - m.eval(v, model_completion=True) >= delta, m.eval(v, model_completion=True) - v >= delta) for v in vary]))
                continue
            if role is not None and role_excl and role in role_excl: excl.append(role_excl[role]); continue
            return 'sat'
        if nore: s.inconclusive.append(f'{name}: solver counterexamples did not reproduce natively ({nore} tried); last: {s.last_noreplay}')
        return 'noreplay'
    # ---- parallel sub-checks ----
    def parallel(s, jobs, nproc=None):
        """jobs: list of (module_name, function_name, args); each runs fn(sub_check, *args) in a forked worker with its own engines/solver;
        the workers' accounting is merged into this check. Results do not depend on scheduling (jobs are independent obligations)."""
        import multiprocessing as mp
        if not jobs: return
        nproc = nproc or min(int(os.environ.get('VERIF_JOBS', '12')), len(jobs))
        payload = [(m, f, a, s.pid, s.tier, s.seed, i) for i, (m, f, a) in enumerate(jobs)]
        if nproc <= 1: outs = [_worker(p) for p in payload]
        else:
            with mp.get_context('fork').Pool(nproc) as pool: outs = pool.map(_worker, payload, chunksize=1)
        for o in outs:
            s.queries += o['queries']; s.solver_s += o['solver_s']; s.violations += o['violations']; s.inconclusive += o['inconclusive']
            for k in o['known_hits']:
                if k not in s.known_hits: s.known_hits.append(k)
            s.samples += o['samples'][:2] if len(s.samples) < 12 else []
            s.diffq += o.get('diffq', [])[:max(0, 60 - len(s.diffq))]
            s.notes += o['notes']; s.states += o['states']; s.transitions += o['transitions']; s.validated += o['validated']; s.replay_cases += o['replay_cases']
            for k, v in o['functions'].items(): s.functions[k] = s.functions.get(k, 0) + v
            for k, v in o['models_used'].items(): s.models_used[k] = s.models_used.get(k, 0) + v
            s.mirinfo = o['mirinfo'] or s.mirinfo
            for a in o['assumptions']:
                if a not in s.assumptions: s.assumptions.append(a)
    # ---- second opinion (thorough tier) ----
    def solver_diff(s):
        """re-decide a sample of the queries z3 4.8.12 proved (unsat) with cvc5 1.0 and z3 5.1 (z3-new): an answer `sat` from either is a disagreement
        (reported inconclusive, never a violation); `unknown`, timeouts and parse errors are counted, not judged"""
        import tempfile, shutil, concurrent.futures as cf
        if not s.diffq: return None
        d = tempfile.mkdtemp(prefix='verif-diff-', dir=os.path.join(VERIF, '.cache'))
        jobs = []
        for i, (name, txt) in enumerate(s.diffq):
            f = os.path.join(d, f'q{i}.smt2'); open(f, 'w').write('(set-logic ALL)\n' + txt)
            for tool, cmd in (('cvc5', ['cvc5', '--lang', 'smt2', '--tlimit=20000', f]), ('z3-new', ['z3-new', '-T:20', f])):
                if shutil.which(cmd[0]): jobs.append((name, tool, cmd))
        def run1(j):
            name, tool, cmd = j
            try:
                r = subprocess.run(cmd, capture_output=True, text=True, timeout=40); out = (r.stdout + r.stderr).strip().splitlines()
                first = out[0].strip() if out else ''
                if any('(error' in l or 'rror:' in l for l in out): return (name, tool, 'error')
                return (name, tool, first if first in ('sat', 'unsat', 'unknown') else 'unknown')
            except subprocess.TimeoutExpired: return (name, tool, 'timeout')
            except Exception: return (name, tool, 'error')
        with cf.ThreadPoolExecutor(max_workers=12) as ex: outs = list(ex.map(run1, jobs))
        shutil.rmtree(d, ignore_errors=True)
        summ = {}
        for name, tool, r in outs:
            summ.setdefault(tool, {}).setdefault(r, 0); summ[tool][r] += 1
            if r == 'sat': s.inconclusive.append(f'solver disagreement: z3 4.8.12 proved "{name}" but {tool} answers sat')
        return dict(queries=len(s.diffq), by_solver=summ)
    # ---- finish ----
    def finish(s):
        for e in getattr(s, '_engines', []): s.absorb(e)
        diff = s.solver_diff() if s.tier == 'thorough' else None
        wall = time.time() - s.t0
        nq = len(s.queries); disc = sum(1 for q in s.queries if q['result'] in ('unsat',) or q['name'].startswith('witness'))
        if not s.samples: s.samples.append(dict(note='no obligations sampled', queries=s.queries[:3]))
        ev = dict(property_id=s.pid, tier=s.tier, seed=s.seed, level='model_checking',
                  coverage=dict(states=max(1, s.states), transitions=max(1, s.transitions), traces_validated_against_impl=s.validated + s.replay_cases,
                                samples=s.samples, obligations=nq, discharged=disc,
                                queries=[q for q in s.queries][:400], solver_s=round(s.solver_s, 2),
                                functions_encoded=sorted(s.functions), models_used=sorted(s.models_used),
                                bounds=s.bounds, known_findings_hit=s.known_hits, inconclusive=s.inconclusive, notes=s.notes,
                                mir=s.mirinfo, exhaustive=False, second_opinion=diff,
                                trusted_base=['rustc MIR printer', 'mirsmt parser/executor', 'std/nalgebra semantic models (numerically validated)', 'z3 4.8.12']),
                  assumptions=s.assumptions, wall_s=round(wall, 2), violations=len(s.violations))
        os.makedirs(os.path.join(VERIF, 'evidence'), exist_ok=True)
        p = os.path.join(VERIF, 'evidence', f'{s.pid}.json'); tmp = p + '.tmp'
        json.dump(ev, open(tmp, 'w'), indent=1, default=str); os.replace(tmp, p)
        print(f'[{s.pid}] tier={s.tier} queries={nq} unsat/ok={disc} solver_s={s.solver_s:.1f} wall_s={wall:.1f} '
              f'violations={len(s.violations)} known={len(s.known_hits)} inconclusive={len(s.inconclusive)}', flush=True)
        for i in s.inconclusive: print('INCONCLUSIVE:', i, flush=True)
        if s.violations: return 1
        if s.inconclusive: return 2
        return 0

def _worker(p):
    import importlib
    m, f, a, pid, tier, seed, idx = p
    ck = Check(pid, tier, seed); ck.rng = random.Random(seed * 7919 + int(pid[1:]) + 1000 * (idx + 1))
    t0 = time.time()
    try:
        getattr(importlib.import_module(m), f)(ck, *a)
        ck.notes.append(f'job {f}{a}: {time.time() - t0:.1f}s')
    except Inconclusive as e:
        ck.inconclusive.append(f'{f}{a}: Inconclusive: {e}')
    except Exception as e:
        traceback.print_exc(); ck.inconclusive.append(f'{f}{a}: internal error {type(e).__name__}: {e}')
    for e in getattr(ck, '_engines', []): ck.absorb(e)
    return dict(queries=ck.queries, solver_s=ck.solver_s, violations=ck.violations, inconclusive=ck.inconclusive, known_hits=ck.known_hits, samples=ck.samples,
                notes=ck.notes, states=ck.states, transitions=ck.transitions, validated=ck.validated, replay_cases=ck.replay_cases, functions=ck.functions,
                models_used=ck.models_used, mirinfo=ck.mirinfo, assumptions=ck.assumptions, diffq=ck.diffq[:12])

def fmt_arg(v):
    if isinstance(v, (list, tuple)): return ','.join(fmt_arg(x) for x in v)
    if isinstance(v, bool): return 'true' if v else 'false'
    if isinstance(v, float): return repr(v)
    return str(v)

def load_known():
    p = os.path.join(VERIF, 'KNOWN_FINDINGS.json')
    out = {}
    if os.path.isfile(p):
        for f in json.load(open(p)).get('findings', []): out.setdefault(f['property'], []).append(f)
    return out

_REPLAY = None
def ensure_replay():
    """build the replay binary against /repo's current working tree (cargo decides what is stale)"""
    global _REPLAY
    if _REPLAY: return _REPLAY
    d = os.path.join(VERIF, 'replay')
    tgt = os.path.join(VERIF, '.cache', 'target-replay')
    env = dict(os.environ, CARGO_NET_OFFLINE='true', CARGO_TARGET_DIR=tgt, RUSTFLAGS='--cfg rs_opw_kinematics_verif -Awarnings')
    lock = os.path.join(d, 'Cargo.lock')
    if not os.path.isfile(lock) or open(lock).read() != open(os.path.join(REPO, 'Cargo.lock')).read():
        pass   # the replay crate keeps its own lock file (generated offline from the registry cache)
    import fcntl
    os.makedirs(tgt, exist_ok=True)
    with open(os.path.join(tgt, '.verif-lock'), 'w') as lk:
        fcntl.flock(lk, fcntl.LOCK_EX)
        r = subprocess.run(['cargo', 'build', '--offline', '--release', '-q'], cwd=d, env=env, capture_output=True, text=True)
    if r.returncode != 0:
        sys.stderr.write(r.stderr[-3000:]); raise Inconclusive('replay crate does not build against the current tree')
    _REPLAY = os.path.join(tgt, 'release', 'replay'); return _REPLAY

# native cross-check run once per check on every tree: the same oracles (written from the property text) applied to concrete runs of the real code.
# It validates the oracles/specifications the symbolic obligations are stated against, and is counted as traces_validated_against_impl.
BATTERIES = {
 'C01': [dict(sign=[1, 1, 1, 1, 1, 1], dof=6, part='A', search='true'), dict(sign=[-1, 1, -1, -1, 1, -1], off=[0.1, -0.2, 0.3, 0.0, 0.25, -0.4], dof=6, part='B', search='true', prop='C01')],
 'C02': [dict(sign=[1, 1, 1, 1, 1, 1]), dict(sign=[-1, 1, -1, -1, 1, -1], off=[0.1, -0.2, 0.3, 0.0, 0.25, -0.4])],
 'C03': [dict(params=[0.15, -0.11, 0.05, 0.55, 0.61, 0.66, 0.12], off=[0.1, -0.2, 0.3, 0.0, 0.25, -0.4], sign=[-1, 1, -1, -1, 1, -1], joints=[0.3, 14.4, -0.5, 0.6, -27.7, -0.8]),
         dict(params=[0.15, -0.11, 0.05, 0.55, 0.61, 0.66, 0.12], off=[0.1, -0.2, 0.3, 0.0, 0.25, -0.4], sign=[-1, 1, -1, -1, 1, -1], joints=[0.3, 14.4, -0.5, 0.6, -27.7, -0.8], dof=5)],
 'C04': [dict(sign=[1, 1, 1, 1, 1, 1], dof=6, search='true')],
 'C05': [dict(sign=[1, 1, 1, 1, 1, 1], search='true'), dict(sign=[1, 1, 1, 1, -1, 1], off=[0.0, 0.0, 0.0, 0.0, 0.4, 0.0], search='true'), dict(sign=[1, 1, 1, -1, 1, 1], search='true'), dict(sign=[-1, 1, 1, -1, 1, -1], search='true')],
 'C06': [dict(sign=[1, 1, 1, 1, 1, 1], dof=5, search='true'), dict(sign=[1, 1, 1, 1, 1, 1], dof=6, search='true')],
 'C07': [dict(**{'from': [3.0, -1.0, 0.0, 9.42477796076938, -0.5, 2.0], 'to': [1.0, 1.0, 0.0, -1.5707963267948966, 0.5, 8.5], 'x': [3.5, 0.5, 7.0, 3.9, 12.0, -4.0]}, ctor='new'),
         dict(**{'from': [-0.17453292519943295, 0.0, -12.653637076958888, 6.1086523819801535, 0.0, 0.0], 'to': [6.457718232379019, 6.981317007977318, 0.08726646259971647, 6.457718232379019, 1.0, 1.0], 'x': [3.0, 5.0, 1.0, 6.2, 0.5, 0.5]}, ctor='degrees')],
 'C08': [dict(sign=[1, 1, 1, 1, 1, 1], dof=6, search='true'), dict(sign=[1, 1, 1, 1, 1, 1], dof=5, search='true')],
 'C09': [dict(wrapper=w, method=m, euler=[0.3, -0.5, 0.7], shift=[0.1, -0.2, 0.3]) for w in ('tool', 'base', 'frame') for m in ('forward', 'forward_with_joint_poses', 'inverse', 'inverse_continuing', 'inverse_continuing_5dof')]
        + [dict(wrapper='frame_over_tool', method=m, euler=[0.3, -0.5, 0.7], shift=[0.1, -0.2, 0.3]) for m in ('forward', 'inverse', 'inverse_continuing')],
 'C10': [dict(clause='tasks', tool=1, base=1, nenv=2), dict(clause='tasks', tool=0, base=1, nenv=1), dict(clause='entry'), dict(clause='verdict')],
 'C12': [dict(seed=0, n=60)],
 'C11': [dict(clause='entry')], 'C13': [dict(clause='extend')], 'C14': [dict(clause='offsets')], 'C15': [dict(clause='finite_difference')],
 'C16': [dict(driven=d, coupled=c, scaling=sc, method=m) for (d, c, sc) in ((1, 2, 0.7), (2, 1, -0.5), (0, 5, 1.5)) for m in ('forward', 'inverse', 'inverse_continuing_5dof')]
        + [dict(driven=5, coupled=2, scaling=0.5, method=m) for m in ('inverse_5dof', 'inverse_continuing_5dof')] + [dict(driven=5, coupled=1, scaling=-0.25, method='inverse_5dof')],
 'C17': [dict(clause='main', eulerB=[0.3, -0.5, 0.7], eulerM=[-1.1, 0.4, 2.0], shift=[0.5, -0.25, 3.0], p1=[10.0, -4.0, 2.0], l=0.8, u=0.3, w=0.6), dict(clause='mismatch_search'), dict(clause='forward_transformed'), dict(clause='collinear_source'), dict(clause='collinear_target')],
 'C18': [dict(**{'from': [3.0, 5.0, -1.0, -2.0, 6.0, 0.5], 'to': [1.0, -5.0, -2.0, 2.0, 0.2, 0.5]})],
 'C19': [dict()], 'C20': [dict(seed=0, n=150)],
}

def run_battery(ck):
    if os.environ.get('VERIF_NO_BATTERY'): return
    for case in BATTERIES.get(ck.pid, []):
        try: rp = ck.replay(case)
        except Exception as e:
            ck.notes.append(f'native cross-check could not run: {e!r}'); continue
        n = 1
        try: n = int(rp.get('native_cases', '1').split()[0])
        except Exception: pass
        ck.validated += n - 1      # replay() already counted one case
        if rp.get('reproduced'):
            path = os.path.join(VERIF, 'replays', f"{ck.pid}-battery-{hashlib.sha256(json.dumps(case, sort_keys=True, default=str).encode()).hexdigest()[:10]}.json")
            json.dump(dict(property=ck.pid, what='native cross-check of the property on the real code failed', case=case, native=rp), open(path, 'w'), indent=1, default=str)
            ck.violations.append(('native cross-check failed: ' + str(rp.get('diff', ''))[:200], path)); print(f'VIOLATION property={ck.pid} replay={path}', flush=True); print('  native cross-check: ' + str(rp.get('diff', ''))[:300], flush=True)

def main(run_fn, pid):
    import argparse
    ap = argparse.ArgumentParser(); ap.add_argument('--tier', default=os.environ.get('VERIF_TIER', 'quick')); ap.add_argument('--seed', type=int, default=int(os.environ.get('VERIF_SEED', '0') or 0))
    a, _ = ap.parse_known_args()
    ck = Check(pid, a.tier if a.tier in ('quick', 'thorough') else 'quick', a.seed)
    try:
        run_fn(ck)
    except Inconclusive as e:
        ck.inconclusive.append(f'{type(e).__name__}: {e}')
    except Exception as e:
        traceback.print_exc(); ck.inconclusive.append(f'internal error {type(e).__name__}: {e}')
    # the native cross-check does not depend on the symbolic part: it runs even when that part could not be completed (changed code the engine cannot execute)
    try: run_battery(ck)
    except Exception as e:
        traceback.print_exc(); ck.inconclusive.append(f'native cross-check: internal error {type(e).__name__}: {e}')
    sys.exit(ck.finish())
