"""C20 - URDF extraction (JOINT-DATA LEVEL; the XML / regex / string layer is outside the encoder and is only cross-checked natively)."""
import itertools, re
import z3
from .common import *
from mirsmt.oracles import install_collections

NAMES = ['joint1', 'joint2', 'joint3', 'joint4', 'joint5', 'joint6']
PN = ['a1', 'a2', 'b', 'c1', 'c2', 'c3', 'c4']

class StrMap(Opaque):
    """HashMap<String, JointData> with concrete keys"""
    def __init__(s, d): super().__init__('strmap', None, dict(d))

def install_urdf(eng, rec):
    D = eng.deref
    M = lambda pat, h: eng.model(pat, h, front=True)
    one = lambda st, v: [(st, v)]
    def key(st, x):
        v = D(st, x) if isinstance(x, RefV) else x
        if not isinstance(v, StrV): raise Inconclusive('map key is not a concrete string')
        return v.s
    M(r'^std::collections::HashMap::<std::string::String, .*>::contains_key', lambda e, st, fr, f, a, m: one(st, key(st, a[1]) in D(st, a[0]).data))
    def get(e, st, fr, f, a, m):
        mp = D(st, a[0]); k = key(st, a[1])
        if k not in mp.data: return one(st, NONE())
        cell = ('mapval', k); st.frames[0].locals[cell] = mp.data[k]
        return one(st, Some(RefV(0, cell, ())))
    M(r'^std::collections::HashMap::<std::string::String, .*>::get', get)
    M(r'^<std::string::String as std::string::ToString>::to_string$|^<std::string::String as std::clone::Clone>::clone$', lambda e, st, fr, f, a, m: one(st, D(st, a[0])))
    M(r'^<&str as std::convert::Into<std::string::String>>::into$|^<str as std::string::ToString>::to_string$|^<std::string::String as std::convert::From<&str>>::from$', lambda e, st, fr, f, a, m: one(st, D(st, a[0]) if isinstance(D(st, a[0]), StrV) else Opaque('string')))

class Text(Opaque):
    """the text of an XML attribute, by shape: 'nums' (whitespace separated tokens: data = list of F, or None for an unparsable token), 'plain' (a number), 'xacro' (${radians(<number>)}), 'bad'"""
    def __init__(s, shape, data=None): super().__init__('text', shape, data)
class Tok(Opaque):
    def __init__(s, val): super().__init__('tok', None, val)      # val: F, or None = not a number

def install_dom(eng, rec):
    """sxd_document attributes, regex::Regex (as the two shapes it is used to tell apart), str splitting/parsing, HashMap<String, JointData> construction"""
    from mirsmt.models_std import _deq
    D = eng.deref
    M = lambda pat, h: eng.model(pat, h, front=True)
    one = lambda st, v: [(st, v)]
    def attribute(e, st, fr, f, a, m):
        el = D(st, a[0]) if isinstance(a[0], RefV) else a[0]; nm = D(st, a[1]).s if isinstance(a[1], RefV) else a[1].s
        t = el.data.get(nm)
        return one(st, NONE() if t is None else Some(Opaque('attr', nm, t)))
    M(r'sxd_document::dom::Element::<.*>::attribute', attribute)
    M(r'sxd_document::dom::Attribute::<.*>::value$', lambda e, st, fr, f, a, m: one(st, (D(st, a[0]) if isinstance(a[0], RefV) else a[0]).data))
    def split_ws(e, st, fr, f, a, m):
        t = D(st, a[0]) if isinstance(a[0], RefV) else a[0]
        if not (isinstance(t, Text) and t.name == 'nums'): raise Inconclusive('split_whitespace on a text of another shape')
        return one(st, IterV([(True, Tok(v)) for v in t.data], 'val'))
    M(r'core::str::<impl str>::split_whitespace$', split_ws)
    def parse(e, st, fr, f, a, m):
        t = D(st, a[0]) if isinstance(a[0], RefV) else a[0]
        if isinstance(t, Tok): return one(st, Ok(t.data) if t.data is not None else Err(Opaque('ParseFloatError')))
        if isinstance(t, Text) and t.name == 'plain': return one(st, Ok(t.data))
        if isinstance(t, Text) and t.name in ('bad', 'xacro'): return one(st, Err(Opaque('ParseFloatError')))      # "${radians(..)}" is not a float literal
        raise Inconclusive('parse of an unshaped string')
    M(r'core::str::<impl str>::parse::<f64>$|core::str::<impl str>::parse$', parse)
    def collect_results(e, st, fr, f, a, m):
        if not re.search(r'collect::<std::result::Result<std::vec::Vec<', f): return NotImplemented
        vals = []
        for g, x in a[0].ents:
            if g is not True or isz(x.disc): raise Inconclusive('collect of results of unknown kind')
            if x.disc != 0: return one(st, x)
            vals.append(x.items[0])
        return one(st, Ok(VecV.dense(vals)))
    M(r'^<.* as std::iter::Iterator>::collect$', collect_results)
    def map_forking(e, st, fr, f, a, m):
        it, clo = a
        if not isinstance(it, IterV): return NotImplemented
        cur = [(st, [])]
        for g, x in it.ents:
            nxt = []
            for s0, acc in cur:
                for s1, v in e.call_closure(s0, fr, clo, [x]): nxt.append((s1, acc + [(g, v)]))
            cur = nxt
        return [(s0, IterV(acc, 'val')) for s0, acc in cur]
    M(r'^<.* as std::iter::Iterator>::map$', map_forking)
    M(r'^regex::Regex::new$', lambda e, st, fr, f, a, m: one(st, Ok(Opaque('regex'))))
    def captures(e, st, fr, f, a, m):
        t = D(st, a[1]) if isinstance(a[1], RefV) else a[1]
        if not isinstance(t, Text): raise Inconclusive('regex on an unshaped string')
        return one(st, Some(Opaque('caps', None, t)) if t.name == 'xacro' else NONE())
    M(r'^regex::Regex::captures$', captures)
    M(r'^regex::Captures::<.*>::get$', lambda e, st, fr, f, a, m: one(st, Some(Opaque('match', None, (D(st, a[0]) if isinstance(a[0], RefV) else a[0]).data)) if a[1] == 1 else NotImplemented))
    M(r'^regex::Match::<.*>::as_str$', lambda e, st, fr, f, a, m: one(st, Tok((D(st, a[0]) if isinstance(a[0], RefV) else a[0]).data.data)))
    M(r'as std::convert::Into<std::boxed::Box<dyn std::error::Error>>>::into$', lambda e, st, fr, f, a, m: one(st, Opaque('boxed-error')))
    M(r'^std::io::Error::new', lambda e, st, fr, f, a, m: one(st, Opaque('io-error')))
    # HashMap<String, JointData>
    M(r'^std::collections::HashMap::<std::string::String, .*>::new$', lambda e, st, fr, f, a, m: one(st, StrMap({})))
    def insert(e, st, fr, f, a, m):
        mp = D(st, a[0]); k = a[1].s if isinstance(a[1], StrV) else D(st, a[1]).s
        old = mp.data.get(k); nd = dict(mp.data); nd[k] = a[2]; e.write_ref(st, a[0], StrMap(nd)); rec.setdefault('inserts', []).append(k)
        return one(st, NONE() if old is None else Some(old))
    M(r'^std::collections::HashMap::<std::string::String, .*>::insert$', insert)
    def entry(e, st, fr, f, a, m):
        mp = D(st, a[0]); k = a[1].s if isinstance(a[1], StrV) else D(st, a[1]).s
        h = Opaque('mapentry', k, a[0])
        return one(st, Enum(0 if k in mp.data else 1, [h], 'Entry'))      # std: enum Entry { Occupied(..), Vacant(..) }
    M(r'^std::collections::HashMap::<std::string::String, .*>::entry$', entry)
    def occ_get(e, st, fr, f, a, m):
        h = D(st, a[0]) if isinstance(a[0], RefV) else a[0]; mp = D(st, h.data)
        cell = ('mapval', h.name); st.frames[0].locals[cell] = mp.data[h.name]
        return one(st, RefV(0, cell, ()))
    M(r'^std::collections::hash_map::OccupiedEntry::<.*>::get$', occ_get)
    def vac_insert(e, st, fr, f, a, m):
        h = D(st, a[0]) if isinstance(a[0], RefV) else a[0]; mp = D(st, h.data)
        nd = dict(mp.data); nd[h.name] = a[1]; e.write_ref(st, h.data, StrMap(nd)); rec.setdefault('inserts', []).append(h.name)
        cell = ('mapval', h.name); st.frames[0].locals[cell] = a[1]
        return one(st, RefV(0, cell, ()))
    M(r'^std::collections::hash_map::VacantEntry::<.*>::insert$', vac_insert)
    def str_eq(e, st, fr, f, a, m):
        x, y = D(st, a[0]), D(st, a[1])
        if isinstance(x, StrV) and isinstance(y, StrV): return one(st, (x.s == y.s) != m.group(1).endswith('ne'))
        raise Inconclusive('comparison of unshaped strings')
    M(r'^<std::string::String as std::cmp::PartialEq>::(eq|ne)$|^<str as std::cmp::PartialEq>::(eq|ne)$', lambda e, st, fr, f, a, m: one(st, (D(st, a[0]).s == D(st, a[1]).s) != f.endswith('::ne')))
    def ref_eq(e, st, fr, f, a, m):
        ty = m.group(1)
        def last_ref(r):
            while isinstance(r, RefV) and isinstance(e.read_ref(st, r), RefV): r = e.read_ref(st, r)      # one level at a time (deref() follows the whole chain)
            return r if isinstance(r, RefV) else e.tmp_ref(st, fr, r)
        outs = e.call(st, fr, f'<{ty} as std::cmp::PartialEq>::eq', [last_ref(a[0]), last_ref(a[1])])
        return [(s2, b_not(v) if m.group(2) == 'ne' else v) for s2, v in outs]
    M(r'^<&([\w:]+) as std::cmp::PartialEq>::(eq|ne)$', ref_eq)

def ufn(eng, name):
    c = [n for n in eng.bodies if n == 'urdf::' + name or (n.startswith('urdf::<impl at') and n.endswith('::' + name))]
    if len(c) != 1: raise Inconclusive(f'urdf::{name}: {len(c)} candidates')
    return eng.bodies[c[0]]

def joint(i, vec=None):
    v = vec or [z3.Real(f'j{i}_{c}') for c in 'xyz']
    return Agg([StrV(NAMES[i]), Agg([F(x) for x in v], 'urdf::Vector3'), z3.Int(f'sign{i}'), F(z3.Real(f'from{i}')), F(z3.Real(f'to{i}'))], 'urdf::JointData')

def generated(layout):
    """joint origins of a description generated from OPW parameters in one of the layouts the extractor documents (comments of populate_opw_parameters; fixtures)"""
    P = {n: z3.Real(n) for n in PN}; Z = z3.RealVal(0)
    c2x, c3j4 = layout
    vec = [[Z, Z, P['c1']], [P['a1'], Z, Z], ([P['c2'], P['b'], Z] if c2x else [Z, P['b'], P['c2']]),
           ([P['c3'], Z, -P['a2']] if c3j4 else [Z, Z, -P['a2']]), ([Z, Z, Z] if c3j4 else [P['c3'], Z, Z]), [P['c4'], Z, Z]]
    return P, vec

def check_populate(ck, layout, b_zero):
    eng = ck.engine(unwind=8); rec = {}; install_collections(eng); install_urdf(eng, rec)
    st = eng.new_state(); P, vec = generated(layout)
    # non-degeneracy under which the layout is recognisable from the origins alone (outside: see DESIGN 10.9)
    st.assume(z3.And([P[n] != 0 for n in PN if n != 'b']))
    st.assume(P['b'] == 0 if b_zero else P['b'] != 0)
    for i in range(6): st.assume(z3.And(z3.Int(f'sign{i}') >= -1, z3.Int(f'sign{i}') <= 1))
    mp = StrMap({NAMES[i]: joint(i, vec[i]) for i in range(6)})
    res = eng.call_body(st, ufn(eng, 'populate_opw_parameters'), [mp, eng.tmp_ref(st, 0, NONE())])
    label = f"populate_opw_parameters[c2 along {'x' if layout[0] else 'z'}, c3 on joint {4 if layout[1] else 5}, b {'= 0' if b_zero else '!= 0'}]: "
    case = lambda m=None: dict(); ck.states += len(res); n_ok = 0
    for s1, o in res:
        ctx = list(s1.pc)
        if isz(o.disc): raise Inconclusive('Ok/Err not separated')
        if o.disc != 0:
            ck.decide(label + 'no error for a description in a supported layout', eng, ctx, z3.BoolVal(True), case, nomodel_case=case); continue
        n_ok += 1; u = o.items[0]      # URDFParameters: a1 a2 b c1 c2 c3 c4 sign_corrections from to dof
        for k, n in enumerate(PN): ck.decide(label + f'{n} is recovered', eng, ctx, u.items[k].v != P[n], case, nomodel_case=case)
        for j in range(6):
            ck.decide(label + f'sign correction {j + 1} = the sign derived from the joint axis', eng, ctx, zi(u.items[7].items[j]) != z3.Int(f'sign{j}'), case, nomodel_case=case)
            ck.decide(label + f'limits of joint {j + 1} are those of the description', eng, ctx, z3.Or(u.items[8].items[j].v != z3.Real(f'from{j}'), u.items[9].items[j].v != z3.Real(f'to{j}')), case, nomodel_case=case)
        ck.decide(label + 'six degrees of freedom', eng, ctx, zi(u.items[10]) != 6, case, nomodel_case=case)
        ck.witness(label + 'success is reachable', eng, *ctx)
    ck.decide(label + 'vacuity: an Ok state exists', eng, [], z3.BoolVal(n_ok == 0), case, nomodel_case=case)
    for ob in eng.obligations: ck.decide(label + f"{ob['kind']} unreachable: {ob['msg'][:50]}", eng, [ob['cond']], z3.BoolVal(True), case, nomodel_case=case)

def check_missing(ck, k):
    eng = ck.engine(unwind=8); rec = {}; install_collections(eng); install_urdf(eng, rec); st = eng.new_state()
    mp = StrMap({NAMES[i]: joint(i) for i in range(6) if i != k})
    res = eng.call_body(st, ufn(eng, 'populate_opw_parameters'), [mp, eng.tmp_ref(st, 0, NONE())])
    label = f'populate_opw_parameters[joint {k + 1} missing]: '; case = lambda m=None: dict(); ck.states += len(res)
    for s1, o in res: ck.decide(label + 'an error value is returned', eng, list(s1.pc), z3.BoolVal(isz(o.disc) or o.disc != 1), case, nomodel_case=case)
    ck.decide(label + 'returns', eng, [], z3.BoolVal(not res), case, nomodel_case=case)
    for ob in eng.obligations: ck.decide(label + f"{ob['kind']} unreachable (no panic): {ob['msg'][:50]}", eng, [ob['cond']], z3.BoolVal(True), case, nomodel_case=case)

def check_conversion(ck):
    """URDFParameters::{parameters, constraints, to_robot}: the extracted values reach the solver unchanged; limits go through Constraints::new(from, to, weight)
    (for which from == to means unconstrained: C07)"""
    for meth in ('parameters', 'constraints', 'to_robot'):
        eng = ck.engine(); rec = {}; install_collections(eng); install_urdf(eng, rec); st = eng.new_state()
        vals = [F(z3.Real(n)) for n in PN]; signs = Agg([z3.Int(f's{i}') for i in range(6)]); frm = Agg([F(z3.Real(f'from{i}')) for i in range(6)]); to = Agg([F(z3.Real(f'to{i}')) for i in range(6)])
        u = Agg(vals + [signs, frm, to, z3.Int('dof')], 'urdf::URDFParameters'); w = F(z3.Real('weight')); offs = Agg([F(z3.Real(f'off{i}')) for i in range(6)])
        news = []
        cn = [n for n in eng.bodies if n.startswith('constraints::<impl at') and n.endswith('::new')]
        if len(cn) != 1: raise Inconclusive('Constraints::new not found')
        eng.overrides[cn[0]] = lambda e, st_, fr, f, a: (news.append(a), [(st_, Opaque('constraints'))])[1]
        rb = [n for n in eng.bodies if n.startswith('kinematics_impl::<impl at') and n.endswith('::new_with_constraints')]
        robots = []
        if rb: eng.overrides[rb[0]] = lambda e, st_, fr, f, a: (robots.append(a), [(st_, Opaque('robot'))])[1]
        args = {'parameters': [u, eng.tmp_ref(st, 0, offs)], 'constraints': [u, w], 'to_robot': [u, w, eng.tmp_ref(st, 0, offs)]}[meth]
        res = eng.call_body(st, ufn(eng, meth), args)
        label = f'URDFParameters::{meth}: '; case = lambda m=None: dict(); ck.states += len(res)
        okc = True
        if meth in ('constraints', 'to_robot'): okc = len(news) == 1 and same(news[0][0], frm) and same(news[0][1], to) and same(news[0][2], w)
        def params_ok(p): return all(same(p.items[k], vals[k]) for k in range(7)) and same(p.items[7], offs) and same(p.items[8], signs) and same(p.items[9], u.items[10])      # Parameters: a1..c4, offsets, sign_corrections, dof
        if meth == 'parameters': okc = len(res) == 1 and params_ok(res[0][1])
        if meth == 'to_robot': okc = okc and len(robots) == 1 and params_ok(robots[0][0]) and isinstance(robots[0][1], Opaque) and robots[0][1].kind == 'constraints'
        ck.decide(label + 'geometry, sign corrections, given offsets and dof reach the solver unchanged; limits become Constraints::new(from, to, weight)', eng, [], z3.BoolVal(not okc), case, nomodel_case=case)

def elem(**attrs): return Opaque('elem', None, dict(attrs))

def check_axis_and_origin(ck):
    x = [z3.Real(f'v{i}') for i in range(3)]
    for fn in ('get_axis_sign', 'get_xyz_from_origin'):
        for shape in ('three numbers', 'two numbers', 'four numbers', 'a token that is not a number', 'attribute missing'):
            eng = ck.engine(unwind=8); rec = {}; install_collections(eng); install_urdf(eng, rec); install_dom(eng, rec); st = eng.new_state()
            vals = {'three numbers': [F(v) for v in x], 'two numbers': [F(x[0]), F(x[1])], 'four numbers': [F(v) for v in x] + [F(z3.Real('v3'))], 'a token that is not a number': [F(x[0]), None, F(x[2])]}.get(shape)
            el = elem(xyz=Text('nums', vals)) if vals is not None else elem()
            res = eng.call_body(st, ufn(eng, fn), [el])
            label = f'{fn}[xyz = {shape}]: '; case = lambda m=None: dict(); ck.states += len(res)
            want_err = shape in ('a token that is not a number', 'attribute missing') or (fn == 'get_xyz_from_origin' and shape != 'three numbers')
            if not res: ck.decide(label + 'returns', eng, [], z3.BoolVal(True), case, nomodel_case=case)
            for s1, o in res:
                ctx = list(s1.pc)
                if isz(o.disc): raise Inconclusive('Ok/Err not separated')
                if want_err: ck.decide(label + 'an error value', eng, ctx, z3.BoolVal(o.disc != 1), case, nomodel_case=case); continue
                ck.decide(label + 'a value', eng, ctx, z3.BoolVal(o.disc != 0), case, nomodel_case=case)
                if o.disc != 0: continue
                if fn == 'get_xyz_from_origin':
                    v = o.items[0]
                    ck.decide(label + 'the three numbers, in order', eng, ctx, z3.Or([v.items[k].v != x[k] for k in range(3)]), case, nomodel_case=case)
                else:
                    comps = [c for c in vals]; nz = z3.Sum([z3.If(c.v != 0, 1, 0) for c in comps])
                    sgn = z3.Sum([z3.If(c.v > 0, 1, z3.If(c.v < 0, -1, 0)) for c in comps])
                    spec = z3.If(nz == 1, sgn, 0)        # exactly one non-zero component: its sign; otherwise 0 (not a rotary axis of the supported kind)
                    ck.decide(label + 'sign of the single non-zero axis component, 0 when there is none or more than one', eng, ctx, zi(o.items[0]) != spec, case, nomodel_case=case)
            for ob in eng.obligations: ck.decide(label + f"{ob['kind']} unreachable (no panic): {ob['msg'][:50]}", eng, [ob['cond']], z3.BoolVal(True), case, nomodel_case=case)

def check_limits(ck):
    lo, hi = z3.Real('lower'), z3.Real('upper')
    for sl, su in itertools.product(('plain', 'xacro', 'bad', 'missing'), repeat=2):
        eng = ck.engine(unwind=8); rec = {}; install_collections(eng); install_urdf(eng, rec); install_dom(eng, rec); st = eng.new_state()
        at = {}
        if sl != 'missing': at['lower'] = Text(sl, F(lo) if sl != 'bad' else None)
        if su != 'missing': at['upper'] = Text(su, F(hi) if su != 'bad' else None)
        res = eng.call_body(st, ufn(eng, 'get_limits'), [elem(**at)])
        label = f'get_limits[lower {sl}, upper {su}]: '; case = lambda m=None: dict(); ck.states += len(res)
        want_err = sl in ('bad', 'missing') or su in ('bad', 'missing')
        if not res: ck.decide(label + 'returns', eng, [], z3.BoolVal(True), case, nomodel_case=case)
        for s1, o in res:
            ctx = list(s1.pc)
            if isz(o.disc): raise Inconclusive('Ok/Err not separated')
            if want_err: ck.decide(label + 'an error value', eng, ctx, z3.BoolVal(o.disc != 1), case, nomodel_case=case); continue
            ck.decide(label + 'a value', eng, ctx, z3.BoolVal(o.disc != 0), case, nomodel_case=case)
            if o.disc != 0: continue
            wl = lo * PI / 180 if sl == 'xacro' else lo; wu = hi * PI / 180 if su == 'xacro' else hi
            ck.decide(label + '(lower, upper) in radians: ${radians(d)} is d degrees, a plain number is radians', eng, ctx, z3.Or(o.items[0].items[0].v != wl, o.items[0].items[1].v != wu), case, nomodel_case=case)
        for ob in eng.obligations: ck.decide(label + f"{ob['kind']} unreachable (no panic): {ob['msg'][:50]}", eng, [ob['cond']], z3.BoolVal(True), case, nomodel_case=case)

def check_convert_to_map(ck):
    """convert_to_map: one entry per joint name; an identical second copy is accepted, a second joint of the same name with different data is an error; the result does not depend on the order"""
    def jd(tag, nm): return Agg([StrV(nm), Agg([F(z3.Real(f'{tag}_{c}')) for c in 'xyz'], 'urdf::Vector3'), z3.Int(f'{tag}_sign'), F(z3.Real(f'{tag}_from')), F(z3.Real(f'{tag}_to'))], 'urdf::JointData')
    A, B, A2 = jd('A', 'joint1'), jd('B', 'joint2'), jd('A2', 'joint1')
    def fields(j): return [x.v for x in j.items[1].items] + [zi(j.items[2]), j.items[3].v, j.items[4].v]
    same_data = z3.And([p_ == q_ for p_, q_ in zip(fields(A), fields(A2))])
    results = {}
    for order in ((A, B), (B, A), (A, B, A2), (A2, B, A), (B, A, A2)):
        eng = ck.engine(unwind=8); rec = {}; install_collections(eng); install_urdf(eng, rec); install_dom(eng, rec); st = eng.new_state()
        res = eng.call_body(st, ufn(eng, 'convert_to_map'), [VecV.dense(list(order))])
        names = [j.items[0].s + ('(second copy)' if j is A2 else '') for j in order]
        label = f'convert_to_map[{", ".join(names)}]: '; case = lambda m=None: dict(); ck.states += len(res)
        dup = A2 in order
        if not res: ck.decide(label + 'returns', eng, [], z3.BoolVal(True), case, nomodel_case=case)
        for s1, o in res:
            ctx = list(s1.pc)
            if isz(o.disc): raise Inconclusive('Ok/Err not separated')
            if o.disc == 0:
                mp = o.items[0]; okm = isinstance(mp, StrMap) and sorted(mp.data) == ['joint1', 'joint2']
                ck.decide(label + 'one entry per joint name', eng, ctx, z3.BoolVal(not okm), case, nomodel_case=case)
                if dup: ck.decide(label + 'a second joint of the same name is accepted only if its data are identical', eng, ctx, z3.Not(same_data), case, nomodel_case=case)
                if okm:
                    first = [j for j in order if j.items[0].s == 'joint1'][0]
                    ck.decide(label + 'the entries carry the data of the joints', eng, ctx, z3.BoolVal(not (same(mp.data['joint2'], B) and same(mp.data['joint1'], first))), case, nomodel_case=case)
            else:
                ck.decide(label + 'an error only for a conflicting duplicate', eng, ctx, same_data if dup else z3.BoolVal(True), case, nomodel_case=case)
        for ob in eng.obligations: ck.decide(label + f"{ob['kind']} unreachable (no panic): {ob['msg'][:50]}", eng, [ob['cond']], z3.BoolVal(True), case, nomodel_case=case)

def run(ck):
    ck.bounds = dict(level='joint data (name -> origin vector, axis sign, limits); XML, regexes and string handling are outside the encoder',
                     layouts='c2 along z or x, b on joint 3 (zero or not), c3 on joint 4 or 5', values='all parameters symbolic and non-zero (b = 0 and b != 0 separately)')
    ck.assumptions += ['real arithmetic', 'HashMap<String, JointData> as a finite map with concrete joint names', 'non-degenerate parameter values: with a zero a2 (c3 on joint 4) or a zero c2 next to a non-zero b the layouts are indistinguishable from the origins alone']
    for layout in itertools.product((False, True), (False, True)):
        for b_zero in (True, False): check_populate(ck, layout, b_zero)
    for k in range(6): check_missing(ck, k)
    check_conversion(ck)
    check_axis_and_origin(ck)
    check_limits(ck)
    check_convert_to_map(ck)

if __name__ == '__main__':
    main(run, 'C20')
