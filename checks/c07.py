"""C07 — joint limits mean arc membership modulo 2*pi.

Encoded (real MIR, inlined): Constraints::new, from_degrees, update_range, compute_centers,
inside_bounds, compliant (+ closure), filter (+ closure).
Oracle: arc membership written from the property text, in linear real arithmetic with an
integer number of turns.  Bounds: from,to,x in [-4pi,4pi]; loop `while b < a` unwound K=5 with
the unwinding assertion discharged by the solver.
"""
import z3
from .common import *

TWO_PI = 2 * PI
R = 4   # |from|,|to|,|x| <= R*pi

def arc_spec(a, b, x, tag):
    """returns (definitional constraints, accept formula) of the property-text oracle"""
    m = z3.Int(f'turns_{tag}'); k = z3.Int(f'k_{tag}'); w = z3.Real(f'w_{tag}'); d = z3.Real(f'd_{tag}')
    defs = [z3.Implies(a < b, w == b - a),
            z3.Implies(a > b, z3.And(w == b + TWO_PI * z3.ToReal(m) - a, w >= 0, w < TWO_PI, m >= 1)),
            d == x - a - TWO_PI * z3.ToReal(k), d >= 0, d < TWO_PI]
    return defs, z3.Or(a == b, w >= TWO_PI, d <= w)

def free_vars(t, acc=None):
    acc = set() if acc is None else acc
    todo = [t]; seen = set()
    while todo:
        u = todo.pop()
        if u.get_id() in seen: continue
        seen.add(u.get_id())
        if z3.is_const(u) and u.decl().kind() == z3.Z3_OP_UNINTERPRETED: acc.add(u.decl().name())
        todo += u.children()
    return acc

def split_by_joint(r, vars_, sym):
    """if r is AND of conjuncts each mentioning the inputs of exactly one joint, return {joint: conjunction}"""
    a, b, x = vars_
    conj = []; todo = [r]
    while todo:
        u = todo.pop()
        if z3.is_and(u): todo += u.children()
        else: conj.append(u)
    parts = {j: [] for j in sym}
    for c in conj:
        fv = free_vars(c)
        js = [j for j in sym if fv & {a[j].decl().name(), b[j].decl().name(), x[j].decl().name()}]
        if len(js) != 1: return None
        parts[js[0]].append(c)
    if any(not v for v in parts.values()): return None
    return {j: (z3.And(v) if len(v) > 1 else v[0]) for j, v in parts.items()}

def in_range(*vs): return [z3.And(v >= -R * PI, v <= R * PI) for v in vs]

def build(ck, eng, ctor, sym_joints):
    """run constructor + compliant with joints in sym_joints symbolic; returns (state, result, vars, cons value)"""
    a = [z3.Real(f'from{j}') for j in range(6)]; b = [z3.Real(f'to{j}') for j in range(6)]; x = [z3.Real(f'x{j}') for j in range(6)]
    fixed = {}
    for j in range(6):
        if j not in sym_joints: fixed[j] = (RV(0), RV(1), RV('1/2'))
    A = [F(a[j]) if j in sym_joints else F(fixed[j][0]) for j in range(6)]
    B = [F(b[j]) if j in sym_joints else F(fixed[j][1]) for j in range(6)]
    X = [F(x[j]) if j in sym_joints else F(fixed[j][2]) for j in range(6)]
    st = eng.new_state()
    for j in sym_joints: st.pc += tuple(in_range(a[j], b[j], x[j]))
    if ctor == 'new':
        res = eng.call_body(st, eng.bodies[eng.find('::new', 'constraints::')], [Agg(A), Agg(B), fconst(0)])
    elif ctor == 'degrees':
        # to_radians is replaced by the identity on an already-radian symbol: the obligation is then
        # "from_degrees(ranges) behaves as new(to_radians(start), to_radians(end))" for whatever to_radians computes
        eng.model(r'core::f64::<impl f64>::to_radians$', lambda e, s, fr, f, ar, m: [(s, ar[0])], front=True)
        ranges = Agg([RangeV([A[j], B[j], False], 'RangeInclusive') for j in range(6)])
        res = eng.call_body(st, eng.bodies[eng.find('::from_degrees', 'constraints::')], [ranges, fconst(0)])
    elif ctor == 'update':
        res = eng.call_body(st, eng.bodies[eng.find('::new', 'constraints::')], [Agg([fconst(0)] * 6), Agg([fconst(1)] * 6), fconst(0)])
        assert len(res) == 1
        st, cons0 = res[0]
        r0 = eng.tmp_ref(st, 0, cons0)
        res = eng.call_body(st, eng.bodies[eng.find('::update_range', 'constraints::')], [r0, Agg(A), Agg(B)])
        assert len(res) == 1
        st = res[0][0]; res = [(st, eng.read_ref(st, r0))]
    if len(res) != 1: raise Inconclusive(f'constructor {ctor} left {len(res)} states')
    st, cons = res[0]
    rc = eng.tmp_ref(st, 0, cons); rx = eng.tmp_ref(st, 0, Agg(X))
    res = eng.call_body(st, eng.bodies[eng.find('::compliant', 'constraints::')], [rc, rx])
    if len(res) != 1: raise Inconclusive(f'compliant left {len(res)} states')
    st, r = res[0]
    ck.states += 1
    return st, r, (a, b, x), cons, fixed

def case_from_model(m, vars_, sym, fixed, ctor):
    a, b, x = vars_
    g = lambda v, j, i: model_float(m, v[j]) if j in sym else float(fixed[j][i].as_fraction())
    return dict(**{'from': [g(a, j, 0) for j in range(6)], 'to': [g(b, j, 1) for j in range(6)], 'x': [g(x, j, 2) for j in range(6)]}, ctor=ctor)

def run(ck):
    quick = ck.tier == 'quick'
    ck.bounds = dict(angle_range=f'from,to,x in [-{R}pi,{R}pi]', unwind='K=5 (while b < a), unwinding assertion discharged', joints='each joint alone symbolic (others fixed inside their arcs) + all six symbolic together')
    ck.assumptions += ['real arithmetic (IEEE rounding outside the claim)', 'f64 constant PI read as the mathematical pi',
                       'Iterator::all / filter / cloned / collect evaluated eagerly (closures are pure)']
    roles_py = {'from==to': lambda c: any(c['from'][j] == c['to'][j] for j in range(6))}
    joint_sets = [(j,) for j in range(6)]
    plans = [('new', js) for js in joint_sets] + [('new', tuple(range(6)))]
    plans += [('degrees', (ck.rng.randrange(6),)), ('update', (ck.rng.randrange(6),))] if quick else [(c, (j,)) for c in ('degrees', 'update') for j in range(6)]
    for ctor, sym in plans:
        eng = ck.engine(unwind=5, pi_rational=True)
        st, r, vars_, cons, fixed = build(ck, eng, ctor, sym)
        a, b, x = vars_
        label = f'{ctor}{list(sym)}: '
        ctx = [st.pcz()]
        ck.witness(label + 'end state reachable', eng, *ctx)
        for ob, m in ck.engine_obligations(eng, *[c for j in sym for c in in_range(a[j], b[j], x[j])], label=label):
            ck.report(f"{ob['kind']} obligation satisfiable: {ob['msg']}", case_from_model(m, vars_, sym, fixed, ctor))
        defs, accs = [], []
        for j in sym:
            d, acc = arc_spec(a[j], b[j], x[j], j); defs += d; accs.append(acc)
        spec = z3.And(accs) if len(accs) > 1 else accs[0]
        # r is a conjunction over joints: when its conjuncts separate by joint, prove them joint by joint (sound: r = AND c_j, c_j <=> acc_j)
        goals = [(zb(r) != spec, defs, '')]
        if len(sym) > 1:
            parts = split_by_joint(zb(r), vars_, sym)
            if parts is not None:
                goals = []
                for j in sym:
                    d, acc = arc_spec(a[j], b[j], x[j], j)
                    goals.append((parts[j] != acc, d, f' [conjunct of joint {j}]'))
                ck.notes.append(label + 'result decomposed into per-joint conjuncts')
        rex = {'from==to': z3.And([a[j] != b[j] for j in sym])}
        for goal, gdefs, gl in goals:
            ck.decide(label + 'compliant <=> arc membership' + gl, eng, [*ctx, *gdefs], goal, lambda m: case_from_model(m, vars_, sym, fixed, ctor),
                      what='compliant differs from arc membership', roles=roles_py, role_excl=rex, vary=[v[j] for j in sym for v in (a, b, x)] if len(sym) == 1 else ())
        # both verdicts are reachable (non-vacuity of the equivalence)
        ck.witness(label + 'some vector accepted', eng, *ctx, zb(r))
        ck.witness(label + 'some vector rejected', eng, *ctx, z3.Not(zb(r)))
        if ctor == 'new' and len(sym) == 1:
            # the reported centre of every range is itself accepted
            j = sym[0]
            eng2 = ck.engine(unwind=5, pi_rational=True)
            st2, r2, v2, cons2, fixed2 = build(ck, eng2, 'new', sym)
            cen = Agg([cons2.items[2].items[i] if i == j else fconst('1/2') for i in range(6)])
            rc = eng2.tmp_ref(st2, 0, cons2); rx = eng2.tmp_ref(st2, 0, cen)
            res2 = eng2.call_body(st2, eng2.bodies[eng2.find('::compliant', 'constraints::')], [rc, rx])
            assert len(res2) == 1
            st3, rcen = res2[0]
            def ccase(m):
                case = case_from_model(m, v2, sym, fixed2, 'new'); case['x'][j] = model_float(m, cons2.items[2].items[j].v); case['centre'] = 'true'; return case
            ck.decide(label + 'centre of the range is accepted', eng2, [st3.pcz()], z3.Not(zb(rcen)), ccase, what='centre of a range rejected', roles=roles_py,
                      role_excl={'from==to': v2[0][j] != v2[1][j]}, vary=[v2[0][j], v2[1][j]])
    # filter: order-preserving sub-list of the compliant elements
    eng = ck.engine(unwind=5, pi_rational=True)
    a, b = z3.Real('fa'), z3.Real('fb'); xs = [z3.Real(f'fx{i}') for i in range(3)]
    st = eng.new_state(); st.pc += tuple(in_range(a, b, *xs))
    res = eng.call_body(st, eng.bodies[eng.find('::new', 'constraints::')], [Agg([F(a)] + [fconst(0)] * 5), Agg([F(b)] + [fconst(1)] * 5), fconst(0)])
    st, cons = res[0]
    lst = VecV.dense([Agg([F(xs[i])] + [fconst('1/2')] * 5) for i in range(3)])
    rc = eng.tmp_ref(st, 0, cons); rl = eng.tmp_ref(st, 0, lst)
    res = eng.call_body(st, eng.bodies[eng.find('::filter', 'constraints::')], [rc, rl])
    if len(res) != 1: raise Inconclusive('filter forks')
    st, out = res[0]; ck.states += 1
    if not isinstance(out, VecV) or len(out.ents) != 3:
        ck.report('filter does not return an order-preserving selection of its input', dict(**{'from': [0.0] * 6, 'to': [1.0] * 6, 'x': [0.5] * 6}, ctor='new', filter_shape=str(len(getattr(out, 'ents', [])))))
    else:
        for i, (g, v) in enumerate(out.ents):
            sti = st.clone()
            comp_i = eng.call_body(sti, eng.bodies[eng.find('::compliant', 'constraints::')], [rc, eng.tmp_ref(sti, 0, lst.items[i])])
            assert len(comp_i) == 1
            ci = comp_i[0][1]
            res, m = ck.prove(f'filter keeps element {i} iff compliant, unchanged', eng, st.pcz(), z3.Or(zb(g) != zb(ci), v.items[0].v != xs[i]))
            if res == 'sat':
                ck.report('filter result differs from compliant elements', dict(**{'from': [model_float(m, a)] + [0.0] * 5, 'to': [model_float(m, b)] + [1.0] * 5, 'x': [model_float(m, xs[i])] + [0.5] * 5}, ctor='new', via='filter'), roles_py)

if __name__ == '__main__':
    main(run, 'C07')
