//! C20 native oracle: URDF text generated from OPW parameters in the layouts the extractor documents, read back through the real `from_urdf`.
use crate::Case;
use rs_opw_kinematics::constraints::BY_PREV;
use rs_opw_kinematics::kinematic_traits::Kinematics;
use rs_opw_kinematics::urdf::from_urdf;

struct Lcg(u64);
impl Lcg { fn next(&mut self) -> f64 { self.0 = self.0.wrapping_mul(6364136223846793005).wrapping_add(1442695040888963407); ((self.0 >> 11) as f64) / ((1u64 << 53) as f64) }
           fn pick<T: Copy>(&mut self, v: &[T]) -> T { v[((self.next() * v.len() as f64) as usize).min(v.len() - 1)] }
           fn val(&mut self) -> f64 { let k = (self.next() * 2000.0).round() / 1000.0 - 1.0; if k == 0.0 { 0.125 } else { k } } }

#[derive(Clone)]
pub struct Spec { p: [f64; 7] /* a1 a2 b c1 c2 c3 c4 */, c2_along_x: bool, c3_on_j4: bool, signs: [i32; 6], limits: [Option<(f64, f64, bool)>; 6] /* lower, upper, written as ${radians(deg)} (values then in degrees) */,
                  order: Vec<usize>, deco: usize, nested: usize, duplicate: usize /* 0 none, 1 identical copy, 2.. conflicting copy of joint 3 (2 origin, 3 limits only, 4 no limits, 5 axis direction) */, drop: Option<usize>, fixed_extra: bool }

fn name(deco: usize, n: usize) -> String {
    match deco { 0 => format!("joint{}", n), 1 => format!("joint_{}", n), 2 => format!("${{prefix}}joint_{}", n), 3 => format!("JOINT{}", n), 4 => format!("left_arm_joint_a{}", n), 5 => format!("my-joint-{}!", n), _ => format!("${{arm_1.prefix}}joint_{}", n) }
}
fn origin(s: &Spec, j: usize) -> [f64; 3] {
    let [a1, a2, b, c1, c2, c3, c4] = s.p;
    match j { 0 => [0.0, 0.0, c1], 1 => [a1, 0.0, 0.0], 2 => if s.c2_along_x { [c2, b, 0.0] } else { [0.0, b, c2] },
              3 => if s.c3_on_j4 { [c3, 0.0, -a2] } else { [0.0, 0.0, -a2] }, 4 => if s.c3_on_j4 { [0.0, 0.0, 0.0] } else { [c3, 0.0, 0.0] }, _ => [c4, 0.0, 0.0] }
}
/// alter: 0 as specified; the second copy of a joint may differ in 1 the origin, 2 the limits only, 3 by having no limits, 4 the axis direction only
fn joint_xml(s: &Spec, j: usize, alter: usize) -> String {
    let o = origin(s, j); let ax = [2usize, 1, 1, 0, 1, 0][j]; let mut a = [0i32; 3]; a[ax] = if alter == 4 { -s.signs[j] } else { s.signs[j] };
    let lim = match (if alter == 3 { None } else if alter == 2 { Some(s.limits[j].map(|(lo, hi, d)| (lo * 0.5, hi * 0.25, d)).unwrap_or((-0.5, 0.5, false))) } else { s.limits[j] }) { None => String::new(),
        Some((lo, hi, true)) => format!("<limit lower=\"${{radians({})}}\" upper=\"${{radians({})}}\" effort=\"1\" velocity=\"1\"/>", lo, hi),
        Some((lo, hi, false)) => format!("<limit effort=\"1\" lower=\"{}\" upper=\"{}\" velocity=\"1\"/>", lo, hi) };
    format!("<joint name=\"{}\" type=\"revolute\"><parent link=\"l{}\"/><origin xyz=\"{} {} {}\" rpy=\"0 0 0\"/><axis xyz=\"{} {} {}\"/>{}<child link=\"l{}\"/></joint>\n",
            name(s.deco, j + 1), j, if alter == 1 { o[0] + 0.5 } else { o[0] }, o[1], o[2], a[0], a[1], a[2], lim, j + 1)
}
pub fn urdf(s: &Spec) -> String {
    let mut body = String::new();
    for &j in &s.order { if Some(j) == s.drop { continue; } body += &joint_xml(s, j, 0); }
    if s.fixed_extra { body += "<joint name=\"base_link-base\" type=\"fixed\"><origin xyz=\"0 0 0\" rpy=\"0 0 0\"/><parent link=\"b\"/><child link=\"c\"/></joint>\n<link name=\"l0\"/>\n"; }
    let wrap = |inner: &str, n: usize| -> String { let mut t = inner.to_string(); for k in 0..n { t = format!("<xacro:macro name=\"m{}\" params=\"prefix\">\n{}</xacro:macro>\n", k, t); } t };
    let mut all = wrap(&body, s.nested);
    if s.duplicate > 0 { let mut second = String::new(); for &j in &s.order { second += &joint_xml(s, j, if s.duplicate >= 2 && j == 2 { s.duplicate - 1 } else { 0 }); } all += &wrap(&second, 1); }
    format!("<?xml version=\"1.0\"?>\n<robot name=\"r\" xmlns:xacro=\"http://wiki.ros.org/xacro\">\n{}</robot>\n", all)
}

fn check(s: &Spec, bad: &mut Vec<String>, tag: &str) {
    let xml = urdf(s);
    let res = std::panic::catch_unwind(|| from_urdf(xml.clone(), &None));
    let res = match res { Ok(r) => r, Err(_) => { bad.push(format!("{}: from_urdf PANICKED", tag)); return; } };
    let expect_err = s.drop.is_some() || s.duplicate >= 2;
    match res {
        Err(e) => { if !expect_err { bad.push(format!("{}: extraction failed: {:?}", tag, e)); } }
        Ok(u) => {
            if expect_err { bad.push(format!("{}: an error value was expected (missing joint / conflicting duplicate), got parameters", tag)); return; }
            let got = [u.a1, u.a2, u.b, u.c1, u.c2, u.c3, u.c4];
            for k in 0..7 { if (got[k] - s.p[k]).abs() > 1e-12 { bad.push(format!("{}: parameter {} extracted as {} instead of {}", tag, ["a1", "a2", "b", "c1", "c2", "c3", "c4"][k], got[k], s.p[k])); break; } }
            for j in 0..6 { if u.sign_corrections[j] as i32 != s.signs[j] { bad.push(format!("{}: sign correction of joint {} is {} (axis sign {})", tag, j + 1, u.sign_corrections[j], s.signs[j])); break; } }
            for j in 0..6 {
                let (lo, hi) = match s.limits[j] { None => (0.0, 0.0), Some((l, h, true)) => (l.to_radians(), h.to_radians()), Some((l, h, false)) => (l, h) };
                if (u.from[j] - lo).abs() > 1e-12 || (u.to[j] - hi).abs() > 1e-12 { bad.push(format!("{}: limits of joint {} extracted as {}..{} instead of {}..{}", tag, j + 1, u.from[j], u.to[j], lo, hi)); break; }
            }
            if u.dof != 6 { bad.push(format!("{}: dof {} for a six-joint description", tag, u.dof)); }
            // a joint without limits is an unconstrained joint of the resulting solver
            let robot = u.to_robot(BY_PREV, &[0.0; 6]);
            if let Some(cons) = robot.constraints() {
                let mut mid = [0.0; 6]; for j in 0..6 { if let Some((l, h, d)) = s.limits[j] { let (l, h) = if d { (l.to_radians(), h.to_radians()) } else { (l, h) }; mid[j] = 0.5 * (l + h); } }
                if !cons.compliant(&mid) { bad.push(format!("{}: the mid-range configuration is rejected by the extracted limits", tag)); }
                for j in 0..6 { if s.limits[j].is_none() { for x in [-3.0, 1.7, 2.9, 6.0] { let mut q = mid; q[j] = x; if !cons.compliant(&q) { bad.push(format!("{}: joint {} has no limits in the description but {} is rejected", tag, j + 1, x)); break; } } } }
            }
        }
    }
}

pub fn c20(c: &Case) {
    let mut bad: Vec<String> = Vec::new(); let mut n = 0;
    let mut r = Lcg(0xC20C20 ^ (c.fo("seed", 0.0) as u64).wrapping_mul(0x9E3779B97F4A7C15));
    let base = Spec { p: [0.15, -0.2, 0.0, 0.45, 0.6, 0.64, 0.1], c2_along_x: false, c3_on_j4: false, signs: [1, -1, -1, -1, -1, -1], limits: [Some((-3.1, 3.1, false)); 6], order: (0..6).collect(), deco: 2, nested: 1, duplicate: 0, drop: None, fixed_extra: true };
    // fixed cases: every layout, every decoration, reversed order, deep nesting, identical and conflicting copies, each joint missing, degrees syntax, no limits
    for c2x in [false, true] { for c3j4 in [false, true] { for b in [0.0, 0.03] { let mut s = base.clone(); s.c2_along_x = c2x; s.c3_on_j4 = c3j4; s.p[2] = b; n += 1; check(&s, &mut bad, &format!("layout c2_along_x={} c3_on_j4={} b={}", c2x, c3j4, b)); } } }
    for d in 0..7 { let mut s = base.clone(); s.deco = d; n += 1; check(&s, &mut bad, &format!("name decoration {:?}", name(d, 3))); }
    { let mut s = base.clone(); s.order = vec![5, 4, 3, 2, 1, 0]; n += 1; check(&s, &mut bad, "joints declared in reverse order"); }
    for nest in [0usize, 3] { let mut s = base.clone(); s.nested = nest; n += 1; check(&s, &mut bad, &format!("nesting depth {}", nest)); }
    for dup in [1usize, 2, 3, 4, 5] { let mut s = base.clone(); s.duplicate = dup; n += 1; check(&s, &mut bad, ["", "identical second copy", "conflicting second copy (origin)", "conflicting second copy (limits only)", "conflicting second copy (no limits)", "conflicting second copy (axis direction)"][dup]);
        // and with the conflicting copy declared FIRST (reverse order inside each copy does not matter; swap by reversing the joint order of the description)
        let mut s2 = s.clone(); s2.order.reverse(); n += 1; check(&s2, &mut bad, &format!("second copy kind {} with reversed declaration order", dup)); }
    for j in 0..6 { let mut s = base.clone(); s.drop = Some(j); n += 1; check(&s, &mut bad, &format!("joint {} missing", j + 1)); }
    { let mut s = base.clone(); s.limits = [Some((-170.0, 170.0, true)), Some((-90.5, 45.25, true)), None, Some((-3.0, 2.0, false)), None, Some((-360.0, 360.0, true))]; n += 1; check(&s, &mut bad, "degrees syntax and joints without limits"); }
    // explicit joint-name list with names that are not of the joint<N> form: used exactly as given, a full six-axis description stays six-axis with its axis signs and limits
    {
        let x = urdf(&base);
        let mut t = x.clone(); for nn in 1..=6 { t = t.replace(&format!("name=\"{}\"", name(base.deco, nn)), &format!("name=\"axis_{}\"", nn)); }
        let names = ["axis_1", "axis_2", "axis_3", "axis_4", "axis_5", "axis_6"]; n += 1;
        match std::panic::catch_unwind(|| from_urdf(t.clone(), &Some(names))) {
            Err(_) => bad.push("explicit joint names: PANIC".into()),
            Ok(Err(e)) => bad.push(format!("explicit joint names axis_1..axis_6: extraction failed: {:?}", e)),
            Ok(Ok(u)) => {
                if u.dof != 6 { bad.push(format!("explicit joint names axis_1..axis_6: dof {} for a six-joint description", u.dof)); }
                for j in 0..6 { if u.sign_corrections[j] as i32 != base.signs[j] { bad.push(format!("explicit joint names: sign correction of joint {} is {} (axis sign {})", j + 1, u.sign_corrections[j], base.signs[j])); break; } }
                for j in 0..6 { if let Some((lo, hi, false)) = base.limits[j] { if (u.from[j] - lo).abs() > 1e-12 || (u.to[j] - hi).abs() > 1e-12 { bad.push(format!("explicit joint names: limits of joint {} extracted as {}..{}", j + 1, u.from[j], u.to[j])); break; } } }
                let got = [u.a1, u.a2, u.b, u.c1, u.c2, u.c3, u.c4]; for k in 0..7 { if (got[k] - base.p[k]).abs() > 1e-12 { bad.push(format!("explicit joint names: parameter {} extracted as {}", k, got[k])); break; } }
            }
        }
    }
    // an origin with four numbers (or two) is not a position: an error value
    for extra in [" 0.5", ""] { let x = urdf(&base); let t = if extra.is_empty() { x.replacen("xyz=\"0.15 0 0\"", "xyz=\"0.15 0\"", 1) } else { x.replacen("xyz=\"0.15 0 0\"", "xyz=\"0.15 0 0 0.5\"", 1) }; n += 1;
        if t == x { bad.push("test construction: origin of joint 2 not found in the generated text".into()); }
        match std::panic::catch_unwind(|| from_urdf(t.clone(), &None)) { Err(_) => bad.push("origin with a wrong number of components: PANIC".into()), Ok(Ok(_)) => bad.push(format!("origin with {} components accepted", if extra.is_empty() { 2 } else { 4 })), Ok(Err(_)) => {} } }
    // malformed XML: an error value, not a panic
    for cut in [20usize, 200, 600] { let x = urdf(&base); let t: String = x.chars().take(x.len().saturating_sub(cut)).collect(); n += 1;
        match std::panic::catch_unwind(|| from_urdf(t.clone(), &None)) { Err(_) => bad.push(format!("truncated XML ({} chars cut): PANIC", cut)), Ok(Ok(_)) => bad.push(format!("truncated XML ({} chars cut) accepted", cut)), Ok(Err(_)) => {} } }
    // seeded random descriptions
    for _ in 0..(c.fo("n", 150.0) as usize) {
        let mut s = base.clone();
        s.p = [r.val(), r.val(), if r.next() < 0.5 { 0.0 } else { r.val() }, r.val(), r.val(), r.val(), r.val()];
        s.c2_along_x = r.next() < 0.5; s.c3_on_j4 = r.next() < 0.5;
        for j in 0..6 { s.signs[j] = if r.next() < 0.5 { 1 } else { -1 }; s.limits[j] = if r.next() < 0.25 { None } else if r.next() < 0.5 { let lo = -(r.next() * 3000.0).round() / 10.0; let hi = (r.next() * 3000.0).round() / 10.0; Some((lo, hi, true)) } else { Some((-(r.next() * 3.0) - 0.01, r.next() * 3.0 + 0.01, false)) }; }
        let mut ord: Vec<usize> = (0..6).collect(); for i in (1..6).rev() { let k = (r.next() * (i + 1) as f64) as usize; ord.swap(i, k.min(i)); } s.order = ord;
        s.deco = r.pick(&[0usize, 1, 2, 3, 4, 5, 6]); s.nested = r.pick(&[0usize, 1, 2]); s.duplicate = r.pick(&[0usize, 0, 0, 1]); s.fixed_extra = r.next() < 0.5;
        n += 1; check(&s, &mut bad, &format!("random description (c2_along_x={} c3_on_j4={} deco={} nested={} dup={} order={:?} p={:?})", s.c2_along_x, s.c3_on_j4, s.deco, s.nested, s.duplicate, s.order, s.p));
    }
    println!("native_cases={}", n); bad.dedup(); for b in bad.iter().take(8) { println!("diff={}", b); } println!("reproduced={}", !bad.is_empty());
}
