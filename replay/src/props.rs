use crate::Case;
use crate::oracle::*;
use rs_opw_kinematics::constraints::Constraints;
use rs_opw_kinematics::kinematic_traits::{Kinematics, Pose, Joints};
use rs_opw_kinematics::kinematics_impl::OPWKinematics;
use rs_opw_kinematics::parameters::opw_kinematics::Parameters;

/// params=a1,a2,b,c1,c2,c3,c4  off=6  sign=6  [dof=..]; defaults: a generic non-degenerate robot
pub fn opw_of(c: &Case) -> (Opw, Parameters) {
    let g = c.vo("params").unwrap_or(vec![0.15, -0.11, 0.05, 0.55, 0.61, 0.66, 0.12]);
    let off = c.vo("off").unwrap_or(vec![0.0; 6]); let sg = c.vo("sign").unwrap_or(vec![1.0; 6]);
    let o = Opw { a1: g[0], a2: g[1], b: g[2], c1: g[3], c2: g[4], c3: g[5], c4: g[6], off: [off[0], off[1], off[2], off[3], off[4], off[5]],
                  sign: [sg[0], sg[1], sg[2], sg[3], sg[4], sg[5]] };
    let p = Parameters { a1: g[0], a2: g[1], b: g[2], c1: g[3], c2: g[4], c3: g[5], c4: g[6], offsets: o.off,
                         sign_corrections: [sg[0] as i8, sg[1] as i8, sg[2] as i8, sg[3] as i8, sg[4] as i8, sg[5] as i8], dof: c.fo("dof", 6.0) as i8 };
    (o, p)
}
pub fn pose_of(i: &Iso) -> Pose {
    let r = nalgebra::Rotation3::from_matrix_unchecked(nalgebra::Matrix3::new(i.r[0][0], i.r[0][1], i.r[0][2], i.r[1][0], i.r[1][1], i.r[1][2], i.r[2][0], i.r[2][1], i.r[2][2]));
    Pose::from_parts(nalgebra::Translation3::new(i.t[0], i.t[1], i.t[2]), nalgebra::UnitQuaternion::from_rotation_matrix(&r))
}
pub fn iso_of(p: &Pose) -> Iso {
    let m = p.rotation.to_rotation_matrix(); let mut r = [[0.0; 3]; 3];
    for i in 0..3 { for j in 0..3 { r[i][j] = m[(i, j)]; } }
    Iso { r, t: [p.translation.x, p.translation.y, p.translation.z] }
}

pub fn run(pid: &str, c: &Case) {
    match pid {
        "C07" => c07(c),
        "C18" => c18(c),
        "C05" => c05(c),
        "C03" => c03(c),
        "C09" => c09(c),
        "C01" => { if c.s("part") == "B" { crate::ikprops::ik_search(c, "C01") } else { crate::ikprops::c01(c) } }
        "C02" => crate::ikprops::c02(c),
        "C04" => crate::ikprops::c04(c),
        "C06" => crate::ikprops::c06(c),
        "C08" => crate::ikprops::c08(c),
        "C16" => c16(c),
        "C10" => c10(c),
        "C19" => c19(c),
        "C13" => c13(c),
        "C15" => c15(c),
        "C11" => c11(c),
        "C14" => c14(c),
        "C17" => c17(c),
        "C12" => crate::c12::c12(c),
        "C20" => crate::c20::c20(c),
        _ => { println!("reproduced=false"); println!("error=unknown property {}", pid); }
    }
}

/// case: from=6 to=6 x=6 [ctor=new|degrees|update]  expected verdict from the oracle with 1e-9 margin
fn c07(c: &Case) {
    let (from, to, x) = (c.a6("from"), c.a6("to"), c.a6("x"));
    let ctor = c.s("ctor");
    let cons = match ctor.as_str() {
        "degrees" => Constraints::from_degrees([
            from[0].to_degrees()..=to[0].to_degrees(), from[1].to_degrees()..=to[1].to_degrees(), from[2].to_degrees()..=to[2].to_degrees(),
            from[3].to_degrees()..=to[3].to_degrees(), from[4].to_degrees()..=to[4].to_degrees(), from[5].to_degrees()..=to[5].to_degrees()], 0.0),
        "update" => { let mut k = Constraints::new([0.0; 6], [1.0; 6], 0.0); k.update_range(from, to); k }
        _ => Constraints::new(from, to, 0.0),
    };
    let got = cons.compliant(&x);
    let mut want = Some(true);
    for j in 0..6 {
        match arc_accepts(from[j], to[j], x[j], 1e-9) {
            None => { want = None; break; }
            Some(false) => { want = Some(false); }
            Some(true) => {}
        }
    }
    println!("compliant={}", got);
    match want {
        None => { println!("oracle=boundary"); println!("reproduced=false"); }
        Some(w) => { println!("oracle={}", w); println!("reproduced={}", w != got); }
    }
}

/// case: from=6 to=6 [panic=true]; the thread-local RNG cannot be driven, so the real sampler is run 200000 times
/// and every draw is judged by the arc oracle (1e-9 margin); a panic of the sampler also reproduces.
fn c18(c: &Case) {
    let (from, to) = (c.a6("from"), c.a6("to"));
    let cons = Constraints::new(from, to, 0.0);
    let r = std::panic::catch_unwind(|| {
        let mut bad = 0usize; let mut first: Option<[f64; 6]> = None;
        for _ in 0..200000 {
            let q = cons.random_angles();
            let mut ok = true;
            for j in 0..6 {
                if !q[j].is_finite() { ok = false; }
                if let Some(false) = arc_accepts(from[j], to[j], q[j], 1e-9) { ok = false; }
            }
            if !ok { bad += 1; if first.is_none() { first = Some(q); } }
        }
        (bad, first)
    });
    match r {
        Err(_) => {
            // a panic only violates the property for arcs of positive width
            let mut positive = true;
            for j in 0..6 { if from[j] > to[j] { let mut b = to[j]; while b < from[j] { b += 2.0 * std::f64::consts::PI; } if b - from[j] <= 0.0 { positive = false; } } }
            println!("panicked=true"); println!("reproduced={}", positive);
        }
        Ok((bad, first)) => { println!("non_compliant_draws={} of 200000", bad); if let Some(q) = first { println!("first_bad={:?}", q); } println!("reproduced={}", bad > 0 && c.s("panic") != "true"); }
    }
}

/// C05(a): joints=6 + robot; oracle: axes of joints 4 and 6 (z columns of link frames 4 and 6 of the independent chain)
/// are collinear within 0.01 degree  <=>  reported singular. Cases within 1e-9 rad of the band edge do not count.
fn c05(c: &Case) {
    if c.s("search") == "true" { return c05_search(c); }
    let (o, p) = opw_of(c); let j = c.a6("joints");
    let k = OPWKinematics::new(p);
    let got = k.kinematic_singularity(&j).is_some();
    let ch = chain(&o, &j);
    let z4 = [ch[3].r[0][2], ch[3].r[1][2], ch[3].r[2][2]]; let z6 = [ch[5].r[0][2], ch[5].r[1][2], ch[5].r[2][2]];
    let cr = [z4[1] * z6[2] - z4[2] * z6[1], z4[2] * z6[0] - z4[0] * z6[2], z4[0] * z6[1] - z4[1] * z6[0]];
    let sn = (cr[0] * cr[0] + cr[1] * cr[1] + cr[2] * cr[2]).sqrt();           // |sin| of the angle between the axes
    let ang = sn.asin();                                                          // angle to the nearest (anti)parallel position
    let thr = 0.01f64.to_radians();
    println!("reported={}", got); println!("axis_angle={:e}", ang);
    if (ang - thr).abs() < 1e-9 { println!("oracle=boundary"); println!("reproduced=false"); return; }
    let want = ang < thr;
    println!("oracle={}", want); println!("reproduced={}", want != got);
}

pub fn iso_diff(a: &Iso, b: &Iso) -> (f64, f64) { (dist(&a.t, &b.t), rot_angle(&a.r, &b.r).abs()) }

/// C03: params/off/sign/joints -> real forward and forward_with_joint_poses vs the independent chain.
/// Reproduced when any pose differs by more than 1e-7 (relative to the robot size) or a rotation is not proper.
fn c03(c: &Case) {
    let (o, p) = opw_of(c); let j = c.a6("joints");
    let k = OPWKinematics::new(p);
    let ch = chain(&o, &j);
    let scale = 1.0 + [o.a1, o.a2, o.b, o.c1, o.c2, o.c3, o.c4].iter().map(|x| x.abs()).sum::<f64>();
    let f = iso_of(&k.forward(&j));
    let ps = k.forward_with_joint_poses(&j);
    let mut bad = Vec::new();
    let (dt, dr) = iso_diff(&f, &ch[5]);
    if !(dt <= 1e-7 * scale && dr <= 1e-7) { bad.push(format!("forward vs chain: dt={:e} dr={:e}", dt, dr)); }
    for i in 0..6 {
        let (dt, dr) = iso_diff(&iso_of(&ps[i]), &ch[i]);
        if !(dt <= 1e-7 * scale && dr <= 1e-7) { bad.push(format!("poses[{}] vs chain: dt={:e} dr={:e}", i, dt, dr)); }
    }
    let rrt = mm(&f.r, &tr(&f.r));
    for i in 0..3 { for k2 in 0..3 { if (rrt[i][k2] - if i == k2 { 1.0 } else { 0.0 }).abs() > 1e-7 { bad.push(format!("forward R R^T [{}][{}] = {}", i, k2, rrt[i][k2])); } } }
    if (det(&f.r) - 1.0).abs() > 1e-7 { bad.push(format!("det forward.R = {}", det(&f.r))); }
    let fin = f.t.iter().all(|x| x.is_finite()) && f.r.iter().all(|r| r.iter().all(|x| x.is_finite()));
    let inputs_finite = j.iter().all(|x| x.is_finite()) && scale.is_finite() && o.off.iter().all(|x| x.is_finite());
    if inputs_finite && !fin { bad.push("non-finite forward".into()); }
    for b in &bad { println!("diff={}", b); }
    println!("reproduced={}", !bad.is_empty());
}

use std::sync::Arc;
use rs_opw_kinematics::tool::{Tool, Base};
use rs_opw_kinematics::frame::Frame;

pub fn euler_iso(e: &[f64], t: &[f64]) -> Iso { Iso { r: mm(&mm(&rz(e[0]), &ry(e[1])), &rz(e[2])), t: [t[0], t[1], t[2]] } }
pub const SEEDS: [[f64; 6]; 4] = [[0.3, 0.4, -0.5, 0.6, 0.7, -0.8], [-1.1, 0.2, 0.3, -0.9, -0.6, 1.4], [2.0, -0.3, 0.4, 1.2, 1.0, 0.1], [-0.4, 0.6, -0.2, -2.2, 0.5, 2.5]];
pub fn close_iso(a: &Iso, b: &Iso, tol: f64) -> bool { let (dt, dr) = iso_diff(a, b); dt <= tol && dr <= tol }
pub fn same_mod_2pi(a: &[f64; 6], b: &[f64; 6], tol: f64) -> bool {
    (0..6).all(|i| { let d = (a[i] - b[i]).rem_euclid(2.0 * std::f64::consts::PI); d.min(2.0 * std::f64::consts::PI - d) <= tol })
}

/// C09: wrapper=tool|base|frame method=<trait method> euler=3 shift=3 ; clauses of the property evaluated natively on a fixed robot
fn c09(c: &Case) {
    let (o, p) = opw_of(c);
    let wrapper = c.s("wrapper"); let method = c.s("method");
    let x = euler_iso(&c.v("euler"), &c.v("shift"));
    let inner = Arc::new(OPWKinematics::new(p));
    let xp = pose_of(&x);
    let w: Arc<dyn Kinematics> = match wrapper.as_str() {
        "tool" => Arc::new(Tool { robot: inner.clone(), tool: xp }),
        "base" => Arc::new(Base { robot: inner.clone(), base: xp }),
        "frame" => Arc::new(Frame { robot: inner.clone(), frame: xp }),
        // nested: the frame is applied to a robot that already carries a (fixed, rotated) tool; forward and every inverse must agree on robot * tool * frame
        "frame_over_tool" => Arc::new(Frame { robot: Arc::new(Tool { robot: inner.clone(), tool: pose_of(&euler_iso(&[0.4, -0.3, 0.2], &[0.03, -0.02, 0.11])) }), frame: xp }),
        _ => { println!("error=wrapper {} cannot be constructed from outside the crate", wrapper); println!("reproduced=false"); return; }
    };
    let left = wrapper == "base";
    let nested_tool = euler_iso(&[0.4, -0.3, 0.2], &[0.03, -0.02, 0.11]);
    let stack = |q: &[f64; 6]| -> Iso { let f = fk(&o, q); if wrapper == "frame_over_tool" { compose(&compose(&f, &nested_tool), &x) } else if left { compose(&x, &f) } else { compose(&f, &x) } };
    let mut bad: Vec<String> = Vec::new();
    for q in SEEDS.iter() {
        let pose = stack(q); let pp = pose_of(&pose);
        match method.as_str() {
            "forward" => { if !close_iso(&iso_of(&w.forward(q)), &pose, 1e-7) { bad.push(format!("forward({:?}) != base*robot*tool", q)); } }
            "forward_with_joint_poses" => {
                let ch = chain(&o, q); let got = w.forward_with_joint_poses(q);
                for i in 0..6 {
                    let want = match wrapper.as_str() { "tool" => ch[i], "base" => compose(&x, &ch[i]), _ => if i == 5 { compose(&ch[i], &x) } else { ch[i] } };
                    if !close_iso(&iso_of(&got[i]), &want, 1e-7) { bad.push(format!("link pose {} wrong", i)); }
                }
            }
            "inverse" | "inverse_continuing" => {
                let sols = if method == "inverse" { w.inverse(&pp) } else { w.inverse_continuing(&pp, q) };
                for s in &sols { if !close_iso(&stack(s), &pose, 2e-6) { bad.push(format!("answer {:?} does not map back onto the request", s)); } }
                if !sols.iter().any(|s| same_mod_2pi(s, q, 1e-5)) { bad.push(format!("originating joints {:?} not among the answers", q)); }
                if method == "inverse_continuing" && !sols.is_empty() && !same_mod_2pi(&sols[0], q, 1e-5) { bad.push("previous joints realise the pose but are not the first answer".into()); }
            }
            "inverse_5dof" | "inverse_continuing_5dof" => {
                let mut prev = *q; prev[5] = 1.7;
                let sols = if method == "inverse_5dof" { w.inverse_5dof(&pp, 0.77) } else { w.inverse_continuing_5dof(&pp, &prev) };
                let want6 = if method == "inverse_5dof" { 0.77 } else { 1.7 };
                for s in &sols { if s[5] != want6 { bad.push(format!("5-DOF answer carries J6={} instead of the caller's {}", s[5], want6)); } }
            }
            "kinematic_singularity" => { if w.kinematic_singularity(q).is_some() != inner.kinematic_singularity(q).is_some() { bad.push("singularity report differs from the wrapped robot".into()); } }
            "constraints" => { if w.constraints().is_some() != inner.constraints().is_some() { bad.push("constraints differ from the wrapped robot".into()); } }
            _ => {}
        }
    }
    bad.dedup();
    for b in bad.iter().take(5) { println!("diff={}", b); }
    println!("reproduced={}", !bad.is_empty());
}

use rs_opw_kinematics::parallelogram::Parallelogram;
/// C16: driven, coupled, scaling, method ; property clauses evaluated natively on a fixed robot
fn c16(c: &Case) {
    let (o, p) = opw_of(c);
    let (d, cp, sc) = (c.f("driven") as usize, c.f("coupled") as usize, c.f("scaling")); let method = c.s("method");
    let inner = Arc::new(OPWKinematics::new(p));
    let w = Parallelogram { robot: inner.clone(), scaling: sc, driven: d, coupled: cp };
    let wfk = |q: &[f64; 6]| -> Iso { let mut a = *q; a[cp] -= sc * a[d]; fk(&o, &a) };
    let mut bad: Vec<String> = Vec::new();
    for q in SEEDS.iter() {
        let pose = wfk(q); let pp = pose_of(&pose);
        match method.as_str() {
            "forward" => { if !close_iso(&iso_of(&w.forward(q)), &pose, 1e-7) { bad.push("forward != inner forward at the decoupled joints".into()); } }
            "forward_with_joint_poses" => { let mut a = *q; a[cp] -= sc * a[d]; let ch = chain(&o, &a); let got = w.forward_with_joint_poses(q);
                for i in 0..6 { if !close_iso(&iso_of(&got[i]), &ch[i], 1e-7) { bad.push(format!("link pose {} wrong", i)); } } }
            "inverse" | "inverse_continuing" => {
                let sols = if method == "inverse" { w.inverse(&pp) } else { w.inverse_continuing(&pp, q) };
                if sols.is_empty() { bad.push("no answers for a pose produced by the wrapper's own forward".into()); }
                for s in &sols { if !close_iso(&wfk(s), &pose, 2e-6) { bad.push(format!("answer {:?} does not map back onto the request through the wrapper forward", s)); } }
            }
            "inverse_5dof" | "inverse_continuing_5dof" => {
                let sols = if method == "inverse_5dof" { w.inverse_5dof(&pp, q[5]) } else { w.inverse_continuing_5dof(&pp, q) };
                for s in &sols { if dist(&wfk(s).t, &pose.t) > 2e-6 { bad.push(format!("5-DOF answer {:?} misses the tool point", s)); } }
                // a caller-fixed J6 more than half a turn away (it may be the driving joint): the answers still map back onto the tool point
                for j6 in [4.0f64, -5.5, 9.0] {
                    let mut q2 = *q; q2[5] = j6; let pose2 = wfk(&q2); let pp2 = pose_of(&pose2);
                    let sols = if method == "inverse_5dof" { w.inverse_5dof(&pp2, j6) } else { w.inverse_continuing_5dof(&pp2, &q2) };
                    for s in &sols { if dist(&wfk(s).t, &pose2.t) > 2e-6 { bad.push(format!("5-DOF answer {:?} (J6 fixed at {}) misses the tool point", s, j6)); } }
                }
            }
            _ => {}
        }
    }
    bad.dedup();
    for b in bad.iter().take(5) { println!("diff={}", b); }
    println!("reproduced={}", !bad.is_empty());
}

use nalgebra::Point3;
fn p3(v: &V3) -> Point3<f64> { Point3::new(v[0], v[1], v[2]) }
fn apply(m: &Iso, p: &V3) -> V3 { let r = mv(&m.r, p); [r[0] + m.t[0], r[1] + m.t[1], r[2] + m.t[2]] }
/// C17: clause = main | collinear_source | collinear_target | mismatch | translation | forward_transformed
fn c17(c: &Case) {
    let clause = c.s("clause"); let mut bad: Vec<String> = Vec::new();
    match clause.as_str() {
        "main" => {
            let b = euler_iso(&c.v("eulerB"), &[0.0; 3]); let m = euler_iso(&c.v("eulerM"), &c.v("shift"));
            let p1v = c.v("p1"); let p1 = [p1v[0], p1v[1], p1v[2]]; let (l, u, w) = (c.f("l"), c.f("u"), c.f("w"));
            let e1 = [b.r[0][0], b.r[1][0], b.r[2][0]]; let e2 = [b.r[0][1], b.r[1][1], b.r[2][1]];
            let p2 = [p1[0] + l * e1[0], p1[1] + l * e1[1], p1[2] + l * e1[2]];
            let p3v = [p1[0] + u * e1[0] + w * e2[0], p1[1] + u * e1[1] + w * e2[1], p1[2] + u * e1[2] + w * e2[2]];
            let (q1, q2, q3) = (apply(&m, &p1), apply(&m, &p2), apply(&m, &p3v));
            let scale = 1.0 + l.abs() + u.abs() + w.abs() + p1.iter().map(|x| x.abs()).sum::<f64>() + m.t.iter().map(|x| x.abs()).sum::<f64>();
            if l < 1e-3 || w < 1e-3 * (1.0 + u.abs()) { println!("oracle=ill-conditioned"); println!("reproduced=false"); return; }
            match Frame::frame(p3(&p1), p3(&p2), p3(&p3v), p3(&q1), p3(&q2), p3(&q3)) {
                Err(e) => bad.push(format!("rejected: {}", e)),
                Ok(f) => { let fi = iso_of(&f);
                    for (p, q) in [(p1, q1), (p2, q2), (p3v, q3)] { if dist(&apply(&fi, &p), &q) > 1e-8 * scale { bad.push(format!("frame does not map {:?} onto {:?}", p, q)); } }
                    if !close_iso(&fi, &m, 1e-7 * scale) { bad.push("frame differs from the generating rigid motion".into()); }
                    if (det(&fi.r) - 1.0).abs() > 1e-7 { bad.push("not a proper rotation".into()); } }
            }
        }
        "collinear_source" | "collinear_target" if c.vo("line_o").is_none() => {
            // probes without a solver model: exactly collinear triples (axis-aligned, so exact in f64 too) opposite a triangle that passes the 5 mm distance test
            let thin = [Point3::new(0.0, 0.0, 0.0), Point3::new(1.0, 0.0, 0.0), Point3::new(0.5, 0.03, 0.0)];
            for (k, line) in [[Point3::new(0.2, 0.1, 0.3), Point3::new(1.2, 0.1, 0.3), Point3::new(0.7, 0.1, 0.3)],
                              [Point3::new(-0.4, 2.0, 0.0), Point3::new(-0.4, 2.0, 1.0), Point3::new(-0.4, 2.0, 0.5)]].iter().enumerate() {
                let r = if clause == "collinear_source" { Frame::frame(line[0], line[1], line[2], thin[0], thin[1], thin[2]) } else { Frame::frame(thin[0], thin[1], thin[2], line[0], line[1], line[2]) };
                match r {
                    Ok(f) => bad.push(format!("probe {}: exactly collinear {} points accepted (frame translation {:?})", k, if clause == "collinear_source" { "source" } else { "target" }, f.translation.vector)),
                    Err(e) => { let msg = format!("{}", e); if clause == "collinear_source" && !msg.contains("source") { bad.push(format!("collinear source reported as: {}", msg)); } }
                }
            }
        }
        "collinear_source" | "collinear_target" => {
            let o = c.v("line_o"); let d = c.v("line_d"); let (a, b) = (c.f("a"), c.f("b")); let g = c.v("other");
            let l1 = [o[0], o[1], o[2]]; let l2 = [o[0] + a * d[0], o[1] + a * d[1], o[2] + a * d[2]]; let l3 = [o[0] + b * d[0], o[1] + b * d[1], o[2] + b * d[2]];
            let (g1, g2, g3) = ([g[0], g[1], g[2]], [g[3], g[4], g[5]], [g[6], g[7], g[8]]);
            let r = if clause == "collinear_source" { Frame::frame(p3(&l1), p3(&l2), p3(&l3), p3(&g1), p3(&g2), p3(&g3)) } else { Frame::frame(p3(&g1), p3(&g2), p3(&g3), p3(&l1), p3(&l2), p3(&l3)) };
            // exact collinearity is only meaningful when the three points are exactly on a line in f64 as well: use axis-aligned re-test as well
            if r.is_ok() {
                let cr = [(l2[1]-l1[1])*(l3[2]-l1[2])-(l2[2]-l1[2])*(l3[1]-l1[1]), (l2[2]-l1[2])*(l3[0]-l1[0])-(l2[0]-l1[0])*(l3[2]-l1[2]), (l2[0]-l1[0])*(l3[1]-l1[1])-(l2[1]-l1[1])*(l3[0]-l1[0])];
                if cr.iter().all(|x| *x == 0.0) { bad.push(format!("collinear {} points accepted", if clause == "collinear_source" { "source" } else { "target" })); }
            }
            // canonical exactly-collinear probes
            let (s1, s2, s3) = (Point3::new(0.0, 0.0, 0.0), Point3::new(1.0, 0.0, 0.0), Point3::new(2.0, 0.0, 0.0));
            let (t1, t2, t3) = (Point3::new(0.0, 0.0, 0.0), Point3::new(1.0, 0.0, 0.0), Point3::new(1.0, 1.0, 0.0));
            let (u1, u2, u3) = (Point3::new(0.0, 0.0, 0.0), Point3::new(1.0, 0.0, 0.0), Point3::new(2.0, 0.0, 0.0));
            let rr = if clause == "collinear_source" { Frame::frame(s1, s2, s3, u1, u2, u3) } else { Frame::frame(t1, t2, Point3::new(2.0, 0.0, 0.0) + (t3 - Point3::new(2.0, 0.0, 0.0)) * 0.0, u1, u2, u3) };
            if clause == "collinear_source" { match rr { Ok(_) => bad.push("exactly collinear source accepted".into()), Err(e) => { if !format!("{}", e).contains("source") { bad.push(format!("collinear source reported as: {}", e)); } } } }
        }
        "mismatch" => {
            let a = c.v("a"); let b = c.v("b");
            let pa = [[a[0], a[1], a[2]], [a[3], a[4], a[5]], [a[6], a[7], a[8]]]; let pb = [[b[0], b[1], b[2]], [b[3], b[4], b[5]], [b[6], b[7], b[8]]];
            let pairs = [(0, 1), (0, 2), (1, 2)]; let mut off = false;
            for (i, j) in pairs { if (dist(&pa[i], &pa[j]) - dist(&pb[i], &pb[j])).abs() > 0.005 + 1e-9 { off = true; } }
            if off { if let Ok(_) = Frame::frame(p3(&pa[0]), p3(&pa[1]), p3(&pa[2]), p3(&pb[0]), p3(&pb[1]), p3(&pb[2])) { bad.push("point triples whose distances differ by more than 5 mm accepted".into()); } }
        }
        "mismatch_search" => {
            // congruent triple with ONE pair distance changed by 2 cm (the other two kept): must be rejected, for each of the three pairs
            let base = [[0.0, 0.0, 0.0], [1.0, 0.0, 0.0], [0.3, 0.8, 0.0]];
            let d = |a: &V3, b: &V3| dist(a, b);
            // pair (1,2): swing point 2 around point 0 keeping |01|,|02| ; pair (0,1): swing point 0 around 2 ... generic: rotate one point about another in the plane
            let rot = |p: &V3, c0: &V3, ang: f64| -> V3 { let (s, c_) = ang.sin_cos(); let x = p[0] - c0[0]; let y = p[1] - c0[1]; [c0[0] + c_ * x - s * y, c0[1] + s * x + c_ * y, p[2]] };
            for (mv_, pivot) in [(2usize, 0usize), (1, 2), (0, 1)] {
                let mut q = base; q[mv_] = rot(&base[mv_], &base[pivot], 0.05);
                let changed: Vec<f64> = [(0, 1), (0, 2), (1, 2)].iter().map(|(i, j)| (d(&base[*i], &base[*j]) - d(&q[*i], &q[*j])).abs()).collect();
                if changed.iter().any(|x| *x > 0.0051) { if Frame::frame(p3(&base[0]), p3(&base[1]), p3(&base[2]), p3(&q[0]), p3(&q[1]), p3(&q[2])).is_ok() { bad.push(format!("non-congruent triple accepted (distance changes {:?})", changed)); } }
            }
        }
        "translation" => { let p = c.v("p"); let q = c.v("q"); let f = iso_of(&Frame::translation(Point3::new(p[0], p[1], p[2]), Point3::new(q[0], q[1], q[2])));
            if !close_iso(&f, &Iso { r: I3, t: [q[0] - p[0], q[1] - p[1], q[2] - p[2]] }, 1e-9) { bad.push("translation frame wrong".into()); } }
        _ => {
            let (o, p) = opw_of(c); let x = euler_iso(&[0.3, -0.4, 0.5], &[0.02, -0.03, 0.04]);
            let fr = Frame { robot: Arc::new(OPWKinematics::new(p)), frame: pose_of(&x) };
            for q in SEEDS.iter() { let (sols, pose) = fr.forward_transformed(q, q); let want = compose(&x, &fk(&o, q));
                if !close_iso(&iso_of(&pose), &want, 1e-7) { bad.push("forward_transformed pose != frame * forward".into()); }
                for s in &sols { if !close_iso(&fk(&o, s), &want, 2e-6) { bad.push("forward_transformed answer does not realise the moved pose".into()); } }
                // the answers continue from the GIVEN previous joints (not from qs): a previous wound by a full turn on J6 / J4 keeps that turn in the first answer
                if let Some(first_same) = sols.first().cloned() {
                    for (jj, turn) in [(5usize, 2.0 * std::f64::consts::PI), (3, -2.0 * std::f64::consts::PI)] {
                        let mut prev = first_same; prev[jj] += turn;
                        let (s2, _) = fr.forward_transformed(q, &prev);
                        match s2.first() { None => bad.push("forward_transformed: no answer when previous is wound by a turn".into()),
                            Some(f2) => if (f2[jj] - prev[jj]).abs() > 1e-6 { bad.push(format!("forward_transformed: previous joint {} = {:.4} (a full turn away from qs) but the first answer has {:.4}: not continued from the given previous", jj + 1, prev[jj], f2[jj])); } }
                    }
                }
                for w2 in sols.windows(2) { let d = |s: &[f64; 6]| (0..6).map(|i| (s[i] - q[i]).abs()).sum::<f64>(); if d(&w2[0]) > d(&w2[1]) + 1e-9 { bad.push("answers not ordered by closeness to previous".into()); } } }
        }
    }
    bad.dedup(); for b in bad.iter().take(5) { println!("diff={}", b); } println!("reproduced={}", !bad.is_empty());
}

/// C05 (continuity): exactly singular J5 = 0, previous realises the pose, J4/J6 anywhere in +-360 deg: the first continuation answer is previous.
fn c05_search(c: &Case) {
    let mut bad: Vec<String> = Vec::new(); let mut tried = 0;
    for (o, p) in crate::battery::robots(c) {
        let k = OPWKinematics::new(p);
        let grid: Vec<f64> = (-355..=355).step_by(30).map(|a| (a as f64).to_radians()).collect();
        for &j4 in &grid { for &j6 in &grid {
            let j5 = o.off[4] * o.sign[4];   // geometric J5 = 0
            let prev = [0.17, 0.35, 0.52, j4, j5, j6]; tried += 1;
            let pose = pose_of(&fk(&o, &prev));
            let sols = k.inverse_continuing(&pose, &prev);
            match sols.first() {
                None => bad.push(format!("no answer for the singular pose of {:?}", prev)),
                Some(f) => { if (0..6).any(|j| (f[j] - prev[j]).abs() > 1e-5) { bad.push(format!("first answer {:?} differs from the previous joints {:?} that realise the singular pose", f, prev)); } }
            }
        } }
        // the tool turned about the wrist axis by theta relative to the previous joints: a recovered answer exists, reproduces the pose, and J4/J6 take half of the
        // turn each (counted in the same direction: their sign corrections), instead of jumping to the raw split of the solver
        for &theta in &[0.2f64, -0.45, 1.1, -2.0] { for &(j4, j6) in &[(0.7f64, 1.05f64), (-2.0, 0.4), (2.9, -2.5)] {
            let j5 = o.off[4] * o.sign[4];
            let prev = [0.17, 0.35, 0.52, j4, j5, j6]; tried += 1;
            let mut target = prev; target[5] += theta * o.sign[5];      // geometric J6 turned by theta
            let pose = fk(&o, &target);
            let sols = k.inverse_continuing(&pose_of(&pose), &prev);
            match sols.first() {
                None => bad.push(format!("no answer for the singular pose turned by {} from {:?}", theta, prev)),
                Some(f) => {
                    let (d4, d6) = ((f[3] - prev[3]) * o.sign[3], (f[5] - prev[5]) * o.sign[5]);
                    let pi = std::f64::consts::PI; let close = |a: f64, b: f64| { let mut d = (a - b) % (2.0 * pi); if d > pi { d -= 2.0 * pi; } if d < -pi { d += 2.0 * pi; } d.abs() < 1e-4 };
                    if !close_iso(&fk(&o, f), &pose, 1e-5) { bad.push(format!("first answer {:?} does not reproduce the singular pose turned by {}", f, theta)); }
                    else if !(close(d4, theta / 2.0) && close(d6, theta / 2.0)) { bad.push(format!("singular pose turned by {} from previous {:?}: J4 and J6 of the first answer move by {:.4} and {:.4} (counted in the same direction) instead of {:.4} each", theta, prev, d4, d6, theta / 2.0)); }
                }
            }
        } }
    }
    println!("native_cases={}", tried); bad.dedup(); for b in bad.iter().take(4) { println!("diff={}", b); } println!("reproduced={}", !bad.is_empty());
}

// ------------------------------------------------------------------------------------------------ collisions
use rs_opw_kinematics::collisions::{RobotBody, BaseBody, CollisionBody, SafetyDistances, CheckMode};
use rs_opw_kinematics::kinematic_traits::{Singularity, Solutions, J_TOOL, J_BASE, ENV_START_IDX};
use parry3d::shape::TriMesh;
use std::collections::HashMap;

/// a robot whose link poses are whatever we say (the collision code only asks for forward_with_joint_poses and constraints)
pub struct FixedPoses { pub poses: [Pose; 6], pub cons: Option<Constraints> }
impl Kinematics for FixedPoses {
    fn inverse(&self, _p: &Pose) -> Solutions { vec![] }
    fn inverse_continuing(&self, _p: &Pose, _q: &Joints) -> Solutions { vec![] }
    fn forward(&self, _q: &Joints) -> Pose { self.poses[5] }
    fn inverse_5dof(&self, _p: &Pose, _j: f64) -> Solutions { vec![] }
    fn inverse_continuing_5dof(&self, _p: &Pose, _q: &Joints) -> Solutions { vec![] }
    fn constraints(&self) -> &Option<Constraints> { &self.cons }
    fn kinematic_singularity(&self, _q: &Joints) -> Option<Singularity> { None }
    fn forward_with_joint_poses(&self, _q: &Joints) -> [Pose; 6] { self.poses }
}
pub fn cube(h: f32) -> TriMesh {
    let p = |x: f32, y: f32, z: f32| nalgebra::Point3::new(x, y, z);
    let v = vec![p(-h, -h, -h), p(h, -h, -h), p(-h, h, -h), p(h, h, -h), p(-h, -h, h), p(h, -h, h), p(-h, h, h), p(h, h, h)];
    let idx = vec![[0, 1, 2], [2, 1, 3], [4, 5, 6], [6, 5, 7], [2, 3, 6], [6, 3, 7], [0, 1, 4], [4, 1, 5], [0, 2, 4], [4, 2, 6], [1, 3, 5], [5, 3, 7]];
    TriMesh::new(v, idx).unwrap()
}
fn at(x: f64) -> Pose { Pose::translation(x, 0.0, 0.0) }
fn at32(x: f32) -> nalgebra::Isometry3<f32> { nalgebra::Isometry3::translation(x, 0.0, 0.0) }

/// world of unit cubes 10 m apart in which exactly the bodies of `pair` coincide; returns (body, kinematics)
pub fn cube_world(tool: bool, base: bool, nenv: usize, pair: (usize, usize), table: HashMap<(u16, u16), f32>, to_env: f32, to_robot: f32, mode: CheckMode) -> (RobotBody, FixedPoses) {
    let mut xs: HashMap<usize, f64> = HashMap::new();
    for i in 0..6 { xs.insert(i, 10.0 * i as f64); }
    xs.insert(J_TOOL, 50.0); xs.insert(J_BASE, 100.0 + 0.0); for k in 0..nenv { xs.insert(ENV_START_IDX + k, 200.0 + 10.0 * k as f64); }
    // the tool sits on link 5's pose: give the tool mesh a local offset instead of a pose of its own
    let (a, b) = pair;
    let xa = xs[&a]; xs.insert(b, xa);
    if a == J_TOOL { let xb = xs[&b]; xs.insert(J_TOOL, xb); }
    let tool_local = (xs[&J_TOOL] - xs[&5]) as f32;
    let shifted = |dx: f32| rs_opw_kinematics::collisions::transform_mesh(&cube(0.5), &nalgebra::Isometry3::translation(dx, 0.0, 0.0));
    let poses = [at(xs[&0]), at(xs[&1]), at(xs[&2]), at(xs[&3]), at(xs[&4]), at(xs[&5])];
    let body = RobotBody {
        joint_meshes: [cube(0.5), cube(0.5), cube(0.5), cube(0.5), cube(0.5), cube(0.5)],
        tool: if tool { Some(shifted(tool_local)) } else { None },
        base: if base { Some(BaseBody { mesh: cube(0.5), base_pose: at32(xs[&J_BASE] as f32) }) } else { None },
        collision_environment: (0..nenv).map(|k| CollisionBody { mesh: cube(0.5), pose: at32(xs[&(ENV_START_IDX + k)] as f32) }).collect(),
        safety: SafetyDistances { to_environment: to_env, to_robot_default: to_robot, special_distances: table, mode },
    };
    (body, FixedPoses { poses, cons: None })
}
fn table_of(c: &Case, key: &str) -> HashMap<(u16, u16), f32> { let mut t = HashMap::new(); if let Some(v) = c.vo(key) { for ch in v.chunks(3) { if ch.len() == 3 { t.insert((ch[0] as u16, ch[1] as u16), ch[2] as f32); } } } t }
fn spec_r(t: &HashMap<(u16, u16), f32>, a: usize, b: usize, to_env: f32, to_robot: f32) -> f32 {
    if let Some(r) = t.get(&(a as u16, b as u16)) { return *r; } if let Some(r) = t.get(&(b as u16, a as u16)) { return *r; }
    if a >= ENV_START_IDX || b >= ENV_START_IDX { to_env } else { to_robot }
}
/// C10 clause=tasks: pair=i,j  table=k1,k2,v,...  [given=... for near()] to_env to_robot tool base nenv : the coinciding pair must be reported iff not exempt
pub fn c10(c: &Case) {
    let clause = c.s("clause"); let mut bad: Vec<String> = Vec::new();
    if clause == "entry" {
        // collides / collision_details / near on a coinciding pair: the MODE that counts is the one of the table in use (the body's own, or the one passed to near())
        let mut n = 0;
        for (body_mode, given_mode) in [(CheckMode::NoCheck, CheckMode::AllCollsions), (CheckMode::NoCheck, CheckMode::FirstCollisionOnly), (CheckMode::AllCollsions, CheckMode::NoCheck),
                                        (CheckMode::AllCollsions, CheckMode::AllCollsions), (CheckMode::FirstCollisionOnly, CheckMode::AllCollsions)] {
            for pair in [(0usize, 2usize), (1, ENV_START_IDX), (J_TOOL, ENV_START_IDX)] {
                n += 1;
                let body_checks = body_mode != CheckMode::NoCheck; let given_checks = given_mode != CheckMode::NoCheck;
                let (body, kin) = cube_world(true, true, 1, pair, HashMap::new(), 0.0, 0.0, body_mode);
                let q = [0.0; 6];
                let given = SafetyDistances { to_environment: 0.0, to_robot_default: 0.0, special_distances: HashMap::new(), mode: given_mode };
                let got = body.near(&q, &kin, &given);
                // the tool rides on link 5: an obstacle coinciding with the tool coincides with link 5 too, and first-collision mode may report either pair
                let is_hit = |p: &(usize, usize)| (p.0 == pair.0.min(pair.1) && p.1 == pair.0.max(pair.1)) || (pair.0 == J_TOOL && p.0 == 5 && p.1 == pair.1);
                let has = got.iter().any(|p| is_hit(p));
                if has != given_checks { bad.push(format!("near(): bodies {:?} coincide, body built with mode {:?}, table passed to near() has mode {:?}: reported={} (the passed table decides)", pair, body_mode, given_mode, has)); }
                let det = body.collision_details(&q, &kin);
                let hasd = det.iter().any(|p| is_hit(p));
                if hasd != body_checks { bad.push(format!("collision_details(): bodies {:?} coincide, body mode {:?}: reported={}", pair, body_mode, hasd)); }
                if body.collides(&q, &kin) != body_checks { bad.push(format!("collides(): bodies {:?} coincide, body mode {:?}: answer {}", pair, body_mode, !body_checks)); }
            }
        }
        println!("native_cases={}", n); bad.dedup(); for b in bad.iter().take(5) { println!("diff={}", b); } println!("reproduced={}", !bad.is_empty()); return;
    }
    if clause == "verdict" {
        // positive safety distances: a pair is reported exactly when parry's own distance between the two placed meshes is within the pair's distance.
        // The two bodies differ in vertex count (either order), are placed at arbitrary poses, never nested (the surface-only pre-filter is outside the claim).
        let mut rng = crate::battery::Lcg(9917 + c.fo("seed", 0.0) as u64); let mut n = 0; let (mut close, mut far) = (0, 0);
        let slab = { let a = cube(0.5); let b = rs_opw_kinematics::collisions::transform_mesh(&cube(0.5), &nalgebra::Isometry3::translation(1.0, 0.0, 0.0));
                     let mut v: Vec<nalgebra::Point3<f32>> = a.vertices().to_vec(); v.extend_from_slice(b.vertices());
                     let mut idx: Vec<[u32; 3]> = a.indices().to_vec(); idx.extend(b.indices().iter().map(|t| [t[0] + 8, t[1] + 8, t[2] + 8])); TriMesh::new(v, idx).unwrap() };
        let r = 0.1f32;
        let mut tries = 0;
        while n < 48 && tries < 4000 {
            tries += 1;
            let rot = |g: &mut crate::battery::Lcg| nalgebra::UnitQuaternion::from_euler_angles(g.range(-3.1, 3.1), g.range(-1.5, 1.5), g.range(-3.1, 3.1));
            let ti = nalgebra::Isometry3::from_parts(nalgebra::Translation3::new(20.0 + rng.range(-2.0, 2.0), rng.range(-3.0, 3.0), rng.range(-3.0, 3.0)), rot(&mut rng));
            let off = nalgebra::Isometry3::from_parts(nalgebra::Translation3::new(rng.range(-1.0, 2.0), rng.range(-1.1, 1.1), rng.range(-1.1, 1.1)), rot(&mut rng));
            let tj = ti * off;
            let (ti32, tj32): (nalgebra::Isometry3<f32>, nalgebra::Isometry3<f32>) = (ti.cast(), tj.cast());
            let small = cube(0.2);
            let d = match parry3d::query::distance(&ti32, &slab, &tj32, &small) { Ok(d) => d, Err(_) => continue };
            let hit = parry3d::query::intersection_test(&ti32, &slab, &tj32, &small).unwrap_or(true);
            if hit || d < 0.01 { continue; }
            let want = if d < 0.08 { if close >= 24 { continue; } close += 1; true } else if d > 0.13 && d < 0.5 { if far >= 24 { continue; } far += 1; false } else { continue };
            n += 1;
            // (a) the many-vertex body is the link (first in the task), the small one the obstacle; (b) the other way round
            for swap in [false, true] {
                let mut poses = [at(0.0), at(10.0), at(20.0), at(30.0), at(40.0), at(50.0)]; poses[2] = if swap { tj } else { ti };
                let mut meshes = [cube(0.5), cube(0.5), cube(0.5), cube(0.5), cube(0.5), cube(0.5)]; meshes[2] = if swap { small.clone() } else { slab.clone() };
                let body = RobotBody { joint_meshes: meshes, tool: None, base: None,
                    collision_environment: vec![CollisionBody { mesh: if swap { slab.clone() } else { small.clone() }, pose: if swap { ti32 } else { tj32 } }],
                    safety: SafetyDistances { to_environment: r, to_robot_default: 0.0, special_distances: HashMap::new(), mode: CheckMode::AllCollsions } };
                let kin = FixedPoses { poses, cons: None };
                let got = body.collision_details(&[0.0; 6], &kin);
                let has = got.iter().any(|p| p.0 == 2 && p.1 == ENV_START_IDX);
                if has != want { bad.push(format!("link 2 and the obstacle are {} m apart (parry distance), safety distance {}: reported={} (many-vertex body is the {}; link pose {:?}, obstacle pose {:?})", d, r, has, if swap { "obstacle" } else { "link" }, poses[2], if swap { ti32 } else { tj32 })); }
                if body.collides(&[0.0; 6], &kin) != want { bad.push(format!("collides() = {} for bodies {} m apart with safety distance {}", !want, d, r)); }
            }
        }
        if close < 10 || far < 10 { bad.push(format!("vacuous battery: {} close and {} far placements", close, far)); }
        println!("native_cases={}", 2 * n); bad.dedup(); for b in bad.iter().take(5) { println!("diff={}", b); } println!("reproduced={}", !bad.is_empty()); return;
    }
    if clause != "tasks" { println!("note=clause {} has no native replay (oracle-level obligation)", clause); println!("reproduced=false"); return; }
    let (tool, base, nenv) = (c.fo("tool", 1.0) != 0.0, c.fo("base", 1.0) != 0.0, c.fo("nenv", 1.0) as usize);
    let pv = c.vo("pair"); let own = c.fo("own_table", 1.0) != 0.0;
    let (to_env, to_robot) = (c.fo("to_env", 0.0) as f32, c.fo("to_robot", 0.0) as f32);
    let mut pairs: Vec<(usize, usize)> = Vec::new();
    if let Some(p) = pv { pairs.push((p[0] as usize, p[1] as usize)); }
    else { // search: every relevant pair, with tables exempting a DIFFERENT pair that shares a body
        for i in 0..6 { for j in (i + 2)..6 { pairs.push((i, j)); } if base && i >= 1 { pairs.push((i, J_BASE)); } if tool && i <= 3 { pairs.push((i, J_TOOL)); } for k in 0..nenv { pairs.push((i, ENV_START_IDX + k)); } }
        if tool && base { pairs.push((J_TOOL, J_BASE)); } if tool { for k in 0..nenv { pairs.push((J_TOOL, ENV_START_IDX + k)); } }
    }
    let searching = c.vo("pair").is_none();
    for (a, b) in pairs {
        let mut tables: Vec<(HashMap<(u16, u16), f32>, HashMap<(u16, u16), f32>)> = Vec::new();
        if !searching { tables.push((table_of(c, "table"), table_of(c, "given"))); }
        else {
            tables.push((HashMap::new(), HashMap::new()));
            for other in [0usize, 1, 2, 3, 4, 5] { if other != a && other != b { let mut t = HashMap::new(); t.insert((a.min(other) as u16, a.max(other) as u16), -1.0f32); t.insert((b.min(other) as u16, b.max(other) as u16), -1.0f32); tables.push((t.clone(), HashMap::new())); tables.push((HashMap::new(), t)); } }
            let mut t = HashMap::new(); t.insert((a as u16, b as u16), -1.0f32); tables.push((t.clone(), t.clone()));
            let mut t2 = HashMap::new(); t2.insert((b as u16, a as u16), -1.0f32); tables.push((t2.clone(), t2));
        }
        for (own_t, given_t) in tables {
            let (body, kin) = cube_world(tool, base, nenv, (a, b), own_t.clone(), to_env, to_robot, CheckMode::AllCollsions);
            let q = [0.0; 6];
            let (got, used) = if own || searching && given_t.is_empty() { (body.collision_details(&q, &kin), own_t.clone()) }
                else { let s = SafetyDistances { to_environment: to_env, to_robot_default: to_robot, special_distances: given_t.clone(), mode: CheckMode::AllCollsions }; (body.near(&q, &kin, &s), given_t.clone()) };
            let want = spec_r(&used, a, b, to_env, to_robot) > -1.0;
            let has = got.iter().any(|p| (p.0 == a.min(b) && p.1 == a.max(b)));
            if want != has { bad.push(format!("bodies {} and {} coincide; safety table {:?} (body's own table {:?}): expected reported={} got {:?}", a, b, used, own_t, want, got)); }
            let yes = body.collides(&q, &kin);
            if own_t == used && want && !yes { bad.push(format!("collides() = false although bodies {} and {} coincide (table {:?})", a, b, used)); }
        }
    }
    bad.dedup(); for b in bad.iter().take(5) { println!("diff={}", b); } println!("reproduced={}", !bad.is_empty());
}

/// a "telescopic" robot: link i sits at x = 10*i + q_0 + ... + q_i, so moving joint j shifts links j..5 (and the tool) and nothing else
pub struct Telescopic { pub cons: Option<Constraints> }
impl Kinematics for Telescopic {
    fn inverse(&self, _p: &Pose) -> Solutions { vec![] }
    fn inverse_continuing(&self, _p: &Pose, _q: &Joints) -> Solutions { vec![] }
    fn forward(&self, q: &Joints) -> Pose { self.forward_with_joint_poses(q)[5] }
    fn inverse_5dof(&self, _p: &Pose, _j: f64) -> Solutions { vec![] }
    fn inverse_continuing_5dof(&self, _p: &Pose, _q: &Joints) -> Solutions { vec![] }
    fn constraints(&self) -> &Option<Constraints> { &self.cons }
    fn kinematic_singularity(&self, _q: &Joints) -> Option<Singularity> { None }
    fn forward_with_joint_poses(&self, q: &Joints) -> [Pose; 6] { let mut acc = 0.0; let mut out = [Pose::identity(); 6]; for i in 0..6 { acc += q[i]; out[i] = at(10.0 * i as f64 + acc); } out }
}
/// C14: offsets offered == the candidates that are within limits and free by the FULL check of the same robot, for layouts in which a moved
/// link/tool lands on an unmoved link, on the base, or on an environment object
pub fn c14(c: &Case) {
    let mut bad: Vec<String> = Vec::new(); let mut tried = 0;
    for (tool, base, nenv) in [(true, true, 1usize), (false, true, 2), (true, false, 0), (false, false, 1), (true, true, 0), (false, true, 0)] {
        let kin = Telescopic { cons: Some(Constraints::new([-100.0; 6], [100.0; 6], 0.0)) };
        let mk = || RobotBody {
            joint_meshes: [cube(0.5), cube(0.5), cube(0.5), cube(0.5), cube(0.5), cube(0.5)],
            tool: if tool { Some(rs_opw_kinematics::collisions::transform_mesh(&cube(0.5), &nalgebra::Isometry3::translation(5.0, 0.0, 0.0))) } else { None },
            base: if base { Some(BaseBody { mesh: cube(0.5), base_pose: at32(-20.0) }) } else { None },
            collision_environment: (0..nenv).map(|k| CollisionBody { mesh: cube(0.5), pose: at32(80.0 + 7.0 * k as f32) }).collect(),
            safety: SafetyDistances::standard(CheckMode::FirstCollisionOnly),
        };
        let body = mk();
        let initial = [0.0; 6];
        if body.collides(&initial, &kin) { bad.push("test layout not collision-free".into()); continue; }
        // shifts that bring a moved body onto an unmoved one: link j onto link u (10*(u-j)), onto the base (-20-10j), onto env (80-10j), tool onto link u ...
        let mut shifts: Vec<f64> = vec![3.0, -3.0];
        for d in -12..=12 { shifts.push(5.0 * d as f64); }
        for j in 0..6 { shifts.push(-20.0 - 10.0 * j as f64); shifts.push(80.0 - 10.0 * j as f64); shifts.push(87.0 - 10.0 * j as f64); shifts.push(-25.0 - 10.0 * 5.0); }
        for &dn in &shifts { for &up in &[dn, 3.0] {
            let from = [dn; 6]; let to = [up; 6]; tried += 1;
            let got = body.non_colliding_offsets(&initial, &from, &to, &kin);
            let mut want: Vec<Joints> = Vec::new();
            for j in 0..6 { for t in [&from, &to] { let mut q = initial; q[j] = t[j]; if kin.cons.as_ref().unwrap().compliant(&q) && !body.collides(&q, &kin) { want.push(q); } } }
            for w in &want { if !got.iter().any(|g| g == w) { bad.push(format!("free and legal candidate {:?} withheld (tool={}, base={}, env={})", w, tool, base, nenv)); } }
            for g in &got { if !want.iter().any(|w| w == g) { bad.push(format!("candidate {:?} offered although the full check reports a collision (tool={}, base={}, env={})", g, tool, base, nenv)); } }
        } }
    }
    // limit layouts: the legality of a candidate is what Constraints::compliant says about the WHOLE candidate vector (wrap-around ranges, unconstrained joints, turns, other joints)
    {
        let mut lo = [-100.0; 6]; let mut hi = [100.0; 6];
        let mut variants: Vec<(Constraints, Joints, &str)> = Vec::new();
        lo[0] = 5.2; hi[0] = 1.0; variants.push((Constraints::new(lo, hi, 0.0), [0.0; 6], "wrap-around range on joint 0"));
        lo = [-1.0; 6]; hi = [1.0; 6]; lo[2] = 0.7; hi[2] = 0.7; variants.push((Constraints::new(lo, hi, 0.0), [0.0; 6], "joint 2 unconstrained (from == to)"));
        lo = [-1.0; 6]; hi = [1.0; 6]; variants.push((Constraints::new(lo, hi, 0.0), [0.0, 0.0, 0.0, 2.0, 0.0, 0.0], "initial outside the limits in joint 3"));
        lo = [-1.0; 6]; hi = [1.0; 6]; variants.push((Constraints::new(lo, hi, 0.0), [0.0; 6], "plain limits, targets beyond them"));
        for (cons, initial, what) in variants {
            let kin = Telescopic { cons: Some(cons) };
            let body = RobotBody { joint_meshes: [cube(0.5), cube(0.5), cube(0.5), cube(0.5), cube(0.5), cube(0.5)], tool: None, base: None, collision_environment: vec![], safety: SafetyDistances::standard(CheckMode::FirstCollisionOnly) };
            for (dn, up) in [(-0.3, 0.4), (-1.5, 0.5), (-0.3 + 2.0 * std::f64::consts::PI, 0.4), (-0.9, 1.3)] {
                let from = [dn; 6]; let to = [up; 6]; tried += 1;
                let got = body.non_colliding_offsets(&initial, &from, &to, &kin);
                let mut want: Vec<Joints> = Vec::new();
                for j in 0..6 { for t in [&from, &to] { let mut q = initial; q[j] = t[j]; if kin.cons.as_ref().unwrap().compliant(&q) && !body.collides(&q, &kin) { want.push(q); } } }
                for w in &want { if !got.iter().any(|g| g == w) { bad.push(format!("free and legal candidate {:?} withheld ({})", w, what)); } }
                for g in &got { if !want.iter().any(|w| w == g) { bad.push(format!("candidate {:?} offered although it is outside the limits or colliding ({})", g, what)); } }
            }
        }
    }
    println!("native_cases={}", tried); bad.dedup(); for b in bad.iter().take(5) { println!("diff={}", b); } println!("reproduced={}", !bad.is_empty());
}

use rs_opw_kinematics::kinematics_with_shape::KinematicsWithShape;
/// C11: a real robot with box-shaped links and one environment box; every inverse entry point must equal the stack's answers filtered by !collides, in order
pub fn c11(c: &Case) {
    let (_o, p) = opw_of(c); let mut bad: Vec<String> = Vec::new(); let mut tried = 0;
    let cons = Constraints::new([-3.1; 6], [3.1; 6], 0.0);
    let mk_mesh = |h: f32| cube(h);
    for env_x in [0.9f32, 0.4, 5.0] {
        let env = vec![CollisionBody { mesh: cube(0.35), pose: nalgebra::Isometry3::translation(env_x, 0.2, 0.9) }];
        let base_t = Pose::translation(0.1, -0.2, 0.3); let tool_t = Pose::translation(0.0, 0.0, 0.15);
        let k = KinematicsWithShape::new(p, cons, [mk_mesh(0.06), mk_mesh(0.06), mk_mesh(0.06), mk_mesh(0.05), mk_mesh(0.05), mk_mesh(0.04)], mk_mesh(0.1), base_t, mk_mesh(0.05), tool_t, env, true);
        let stack = &k.kinematics;
        for q in SEEDS.iter() {
            tried += 1;
            // an obstacle exactly where link 4 sits in the FIRST answer of the stack: that answer collides, later ones mostly do not
            {
                let pose0 = stack.forward(q); let all0 = stack.inverse_continuing(&pose0, q);
                for pick in 0..all0.len().min(3) {
                    let lp = stack.forward_with_joint_poses(&all0[pick])[3];
                    let env2 = vec![CollisionBody { mesh: cube(0.07), pose: nalgebra::Isometry3::translation(lp.translation.x as f32, lp.translation.y as f32, lp.translation.z as f32) }];
                    let k2 = KinematicsWithShape::new(p, cons, [mk_mesh(0.02), mk_mesh(0.02), mk_mesh(0.02), mk_mesh(0.05), mk_mesh(0.02), mk_mesh(0.02)], mk_mesh(0.02), base_t, mk_mesh(0.01), tool_t, env2, true);
                    for (name, got, all) in [("inverse", k2.inverse(&pose0), stack.inverse(&pose0)), ("inverse_continuing", k2.inverse_continuing(&pose0, q), stack.inverse_continuing(&pose0, q)),
                                             ("inverse_5dof", k2.inverse_5dof(&pose0, 0.3), stack.inverse_5dof(&pose0, 0.3)), ("inverse_continuing_5dof", k2.inverse_continuing_5dof(&pose0, q), stack.inverse_continuing_5dof(&pose0, q))] {
                        let want: Solutions = all.into_iter().filter(|s| !k2.collides(s)).collect();
                        if got != want { bad.push(format!("{}: returned {} answers, the non-colliding answers of the stack are {} (order-sensitive comparison, obstacle on link 4 of answer {})", name, got.len(), want.len(), pick)); }
                    }
                }
            }
            let pose = stack.forward(q);
            if iso_diff(&iso_of(&k.forward(q)), &iso_of(&pose)).0 > 1e-12 { bad.push("forward differs from the underlying stack".into()); }
            let runs: Vec<(&str, Solutions, Solutions)> = vec![
                ("inverse", k.inverse(&pose), stack.inverse(&pose)), ("inverse_continuing", k.inverse_continuing(&pose, q), stack.inverse_continuing(&pose, q)),
                ("inverse_5dof", k.inverse_5dof(&pose, 0.3), stack.inverse_5dof(&pose, 0.3)), ("inverse_continuing_5dof", k.inverse_continuing_5dof(&pose, q), stack.inverse_continuing_5dof(&pose, q))];
            for (name, got, all) in runs { let want: Solutions = all.into_iter().filter(|s| !k.collides(s)).collect(); if got != want { bad.push(format!("{}: returned {} answers, the non-colliding answers of the stack are {} (order-sensitive comparison)", name, got.len(), want.len())); } }
            if k.kinematic_singularity(q) != stack.kinematic_singularity(q) { bad.push("singularity report differs".into()); }
            let (a, b) = (k.forward_with_joint_poses(q), stack.forward_with_joint_poses(q)); for i in 0..6 { if a[i] != b[i] { bad.push("link poses differ from the stack".into()); } }
            let pr = k.positioned_robot(q); for i in 0..6 { if pr.joints[i].transform != b[i].cast::<f32>() { bad.push("positioned link not at the stack's link pose".into()); } }
        }
    }
    // the kinematic stack a constructor builds must be Tool{Base{OPW + limits}} with the GIVEN transforms: compared with that stack assembled by hand,
    // for bases that are shifted only, turned only (translation exactly zero), tilted only, and both
    {
        use rs_opw_kinematics::tool::{Tool, Base};
        let rot = |axis: usize, ang: f64| { let ax = match axis { 0 => nalgebra::Vector3::x_axis(), 1 => nalgebra::Vector3::y_axis(), _ => nalgebra::Vector3::z_axis() }; nalgebra::UnitQuaternion::from_axis_angle(&ax, ang) };
        let bases = [Pose::translation(0.1, -0.2, 0.3), Pose::from_parts(nalgebra::Translation3::new(0.0, 0.0, 0.0), rot(2, 0.9)), Pose::from_parts(nalgebra::Translation3::new(0.0, 0.0, 0.0), rot(0, 0.35)),
                     Pose::from_parts(nalgebra::Translation3::new(0.4, 0.0, -0.1), rot(1, -0.5))];
        let tools = [Pose::translation(0.0, 0.0, 0.15), Pose::from_parts(nalgebra::Translation3::new(0.05, 0.0, 0.1), rot(1, 0.6))];
        for (bi, base_t) in bases.iter().enumerate() { for (ti, tool_t) in tools.iter().enumerate() { for ctor in 0..2 {
            let env = vec![CollisionBody { mesh: cube(0.05), pose: nalgebra::Isometry3::translation(9.0, 9.0, 9.0) }];
            let meshes = || [mk_mesh(0.02), mk_mesh(0.02), mk_mesh(0.02), mk_mesh(0.02), mk_mesh(0.02), mk_mesh(0.02)];
            let k = if ctor == 0 { KinematicsWithShape::new(p, cons, meshes(), mk_mesh(0.02), *base_t, mk_mesh(0.01), *tool_t, env, true) }
                    else { KinematicsWithShape::with_safety(p, cons, meshes(), mk_mesh(0.02), *base_t, mk_mesh(0.01), *tool_t, env, SafetyDistances::standard(CheckMode::FirstCollisionOnly)) };
            let reference = Tool { robot: std::sync::Arc::new(Base { robot: std::sync::Arc::new(OPWKinematics::new_with_constraints(p, cons)), base: *base_t }), tool: *tool_t };
            for q in SEEDS.iter() {
                tried += 1;
                let what = format!("constructor {} with base #{} and tool #{}", if ctor == 0 { "new" } else { "with_safety" }, bi, ti);
                let (a, b) = (iso_of(&k.forward(q)), iso_of(&reference.forward(q)));
                if iso_diff(&a, &b).0 > 1e-9 || iso_diff(&a, &b).1 > 1e-9 { bad.push(format!("{}: forward differs from Tool{{Base{{robot}}}} built with the same transforms", what)); }
                let (la, lb) = (k.forward_with_joint_poses(q), reference.forward_with_joint_poses(q));
                for i in 0..6 { if iso_diff(&iso_of(&la[i]), &iso_of(&lb[i])).0 > 1e-9 { bad.push(format!("{}: link pose {} differs from the hand-built stack", what, i)); break; } }
                let pose = reference.forward(q);
                let (ia, ib) = (k.inverse_continuing(&pose, q), reference.inverse_continuing(&pose, q));
                let want: Solutions = ib.into_iter().filter(|s| !k.collides(s)).collect();
                if ia.len() != want.len() || ia.iter().zip(want.iter()).any(|(x, y)| !same_mod_2pi(x, y, 1e-7)) { bad.push(format!("{}: inverse_continuing returns {} answers, the hand-built stack gives {}", what, ia.len(), want.len())); }
                // previous = CONSTRAINT_CENTERED with limits that are not centred on zero: the very same vectors (same turn, same order) as the hand-built stack filtered by collisions
                {
                    let cons2 = Constraints::new([0.35, -1.0, -2.0, 0.3, -2.0, 0.4], [5.9, 2.0, 1.5, 6.0, 2.0, 5.8], 0.0);
                    let env2 = vec![CollisionBody { mesh: cube(0.05), pose: nalgebra::Isometry3::translation(9.0, 9.0, 9.0) }];
                    let k2 = KinematicsWithShape::new(p, cons2, meshes(), mk_mesh(0.02), *base_t, mk_mesh(0.01), *tool_t, env2, true);
                    let ref2 = Tool { robot: std::sync::Arc::new(Base { robot: std::sync::Arc::new(OPWKinematics::new_with_constraints(p, cons2)), base: *base_t }), tool: *tool_t };
                    let q2: Joints = [1.2, 0.4, -0.5, 2.0, 0.7, 1.9]; let pose2 = ref2.forward(&q2);
                    for prev in [rs_opw_kinematics::kinematic_traits::CONSTRAINT_CENTERED, q2] {
                        for five in [false, true] {
                            let (a2, b2) = if five { (k2.inverse_continuing_5dof(&pose2, &prev), ref2.inverse_continuing_5dof(&pose2, &prev)) } else { (k2.inverse_continuing(&pose2, &prev), ref2.inverse_continuing(&pose2, &prev)) };
                            let w2: Solutions = b2.into_iter().filter(|s| !k2.collides(s)).collect();
                            if a2.len() != w2.len() || a2.iter().zip(w2.iter()).any(|(x, y)| (0..6).any(|i| (x[i] - y[i]).abs() > 1e-9)) { bad.push(format!("{}: inverse_continuing{} with previous {} differs from the hand-built stack (asymmetric limits)", what, if five { "_5dof" } else { "" }, if prev[0].is_nan() { "CONSTRAINT_CENTERED" } else { "given" })); }
                        }
                    }
                }
                let pr = k.positioned_robot(q); for i in 0..6 { if iso_diff(&iso_of(&pr.joints[i].transform.cast::<f64>()), &iso_of(&lb[i])).0 > 1e-5 { bad.push(format!("{}: positioned link {} not at the link pose of the hand-built stack", what, i)); break; } }
            }
        } } }
    }
    println!("native_cases={}", tried); bad.dedup(); for b in bad.iter().take(5) { println!("diff={}", b); } println!("reproduced={}", !bad.is_empty());
}

use rs_opw_kinematics::jacobian::Jacobian;
use nalgebra::Vector6;
/// C15: the Jacobian (recovered row by row through torques_from_vector) against the geometric one of the independent chain; velocities/torques consistency
pub fn c15(c: &Case) {
    let mut bad: Vec<String> = Vec::new(); let mut tried = 0;
    let (o0, p0) = opw_of(c);
    let variants: Vec<(Opw, rs_opw_kinematics::parameters::opw_kinematics::Parameters)> = {
        let mut v = vec![(o0, p0)];
        let mut o1 = o0; let mut p1 = p0; o1.sign = [-1.0, 1.0, -1.0, -1.0, 1.0, -1.0]; p1.sign_corrections = [-1, 1, -1, -1, 1, -1]; o1.off = [0.1, -0.2, 0.3, 0.0, 0.25, -0.4]; p1.offsets = o1.off; v.push((o1, p1)); v };
    let axes = [2usize, 1, 1, 2, 1, 2];
    for (o, p) in variants {
        let x = euler_iso(&[0.3, -0.5, 0.7], &[0.1, -0.2, 0.3]); let tl = euler_iso(&[-0.2, 0.4, 0.1], &[0.0, 0.05, 0.12]);
        let bare = OPWKinematics::new(p);
        let stack = Tool { robot: Arc::new(Base { robot: Arc::new(OPWKinematics::new(p)), base: pose_of(&x) }), tool: pose_of(&tl) };
        for (wrapped, q) in SEEDS.iter().map(|q| (false, q)).chain(SEEDS.iter().map(|q| (true, q))) {
            for eps in [1e-7, 1e-6, 1e-5] {
                tried += 1;
                let jac = if wrapped { Jacobian::new(&stack, q, eps) } else { Jacobian::new(&bare, q, eps) };
                let mut jm = [[0.0f64; 6]; 6];
                for k in 0..6 { let mut e = Vector6::zeros(); e[k] = 1.0; let row = jac.torques_from_vector(&e); for i in 0..6 { jm[k][i] = row[i]; } }
                // geometric Jacobian from the independent chain (through base and tool when wrapped)
                let ch = chain(&o, q);
                let place = |l: &Iso| if wrapped { compose(&x, l) } else { *l };
                let tcp = if wrapped { compose(&compose(&x, &ch[5]), &tl) } else { ch[5] };
                let scale = 1.0 + [o.a1, o.a2, o.b, o.c1, o.c2, o.c3, o.c4].iter().map(|v| v.abs()).sum::<f64>();
                for i in 0..6 {
                    let li = place(&ch[i]); let z = [li.r[0][axes[i]] * o.sign[i], li.r[1][axes[i]] * o.sign[i], li.r[2][axes[i]] * o.sign[i]];
                    let lev = [tcp.t[0] - li.t[0], tcp.t[1] - li.t[1], tcp.t[2] - li.t[2]];
                    let lin = [z[1] * lev[2] - z[2] * lev[1], z[2] * lev[0] - z[0] * lev[2], z[0] * lev[1] - z[1] * lev[0]];
                    for k in 0..3 {
                        if (jm[k][i] - lin[k]).abs() > 200.0 * eps * scale + 1e-8 / eps * 1e-7 { bad.push(format!("J[{}][{}] = {} but axis x lever arm gives {} (eps {}, wrapped {})", k, i, jm[k][i], lin[k], eps, wrapped)); }
                        if (jm[3 + k][i] - z[k]).abs() > 200.0 * eps + 1e-8 / eps * 1e-7 { bad.push(format!("J[{}][{}] = {} but the joint axis gives {} (eps {}, wrapped {})", 3 + k, i, jm[3 + k][i], z[k], eps, wrapped)); }
                    }
                }
                // the step used is the step given: the translation rows equal the forward difference of `forward` taken with exactly this eps
                {
                    let fw = |qq: &[f64; 6]| if wrapped { stack.forward(qq) } else { bare.forward(qq) };
                    let f0 = fw(q);
                    for i in 0..6 {
                        let mut qp = *q; qp[i] += eps; let fi = fw(&qp);
                        for k in 0..3 {
                            let fd = (fi.translation.vector[k] - f0.translation.vector[k]) / eps;
                            if (jm[k][i] - fd).abs() > 1e-8 * scale { bad.push(format!("J[{}][{}] = {} but the forward difference with the given step {} is {} (wrapped {})", k, i, jm[k][i], eps, fd, wrapped)); }
                        }
                    }
                }
                // velocities reproduce the twist through J; isometry- and vector-based entry points agree; torques are J^T F
                let w = Vector6::new(0.1, -0.2, 0.05, 0.3, 0.1, -0.15);
                if let Ok(v) = jac.velocities_from_vector(&w) { for k in 0..6 { let r: f64 = (0..6).map(|i| jm[k][i] * v[i]).sum(); if (r - w[k]).abs() > 1e-6 * (1.0 + v.iter().map(|a| a.abs()).sum::<f64>()) { bad.push(format!("J * velocities != twist (component {})", k)); } } }
                let iso = nalgebra::Isometry3::new(nalgebra::Vector3::new(0.1, -0.2, 0.05), nalgebra::Vector3::new(0.3, 0.1, -0.15));
                if let (Ok(a), Ok(b)) = (jac.velocities(&iso), jac.velocities_from_vector(&w)) { for i in 0..6 { if (a[i] - b[i]).abs() > 1e-9 * (1.0 + b[i].abs()) { bad.push("isometry- and vector-based velocities differ".into()); } } }
                let (ta, tb) = (jac.torques(&iso), jac.torques_from_vector(&w)); for i in 0..6 { if (ta[i] - tb[i]).abs() > 1e-9 * (1.0 + tb[i].abs()) { bad.push("isometry- and vector-based torques differ".into()); } let want: f64 = (0..6).map(|k| jm[k][i] * w[k]).sum(); if (tb[i] - want).abs() > 1e-9 * (1.0 + want.abs()) { bad.push("torques != J^T F".into()); } }
                if let Ok(f) = jac.velocities_fixed(0.1, -0.2, 0.05) { if let Ok(g) = jac.velocities_from_vector(&Vector6::new(0.1, -0.2, 0.05, 0.0, 0.0, 0.0)) { for i in 0..6 { if (f[i] - g[i]).abs() > 1e-9 * (1.0 + g[i].abs()) { bad.push("velocities_fixed differs from the zero-rotation twist".into()); } } } }
            }
        }
    }
    println!("native_cases={}", tried); bad.dedup(); for b in bad.iter().take(5) { println!("diff={}", b); } println!("reproduced={}", !bad.is_empty());
}

use rs_opw_kinematics::rrt::RRTPlanner;
use std::sync::atomic::AtomicBool;
/// C13: real planner runs (the RNG cannot be driven; every outcome must satisfy the property): start/goal exact, every node free and within the
/// (non-wrapping) limits, consecutive nodes at most three steps apart; a raised flag gives Err
pub fn c13(c: &Case) {
    let (_o, p) = opw_of(c); let mut bad: Vec<String> = Vec::new(); let mut tried = 0; let (mut nok, mut nerr, mut maxlen) = (0, 0, 0usize);
    let from = [-2.9, -1.8, -2.2, -3.0, -2.0, -3.0]; let to = [2.9, 1.8, 2.2, 3.0, 2.0, 3.0];
    let cons = Constraints::new(from, to, 0.0);
    let mk = |env: Vec<CollisionBody>| KinematicsWithShape::new(p, cons, [cube(0.04), cube(0.04), cube(0.04), cube(0.04), cube(0.04), cube(0.03)], cube(0.05), Pose::identity(), cube(0.03), Pose::translation(0.0, 0.0, 0.05), env, true);
    let pairs = [([0.0, 0.2, 0.1, 0.0, 0.6, 0.0], [1.2, 0.3, -0.2, 0.5, 0.9, -0.4]), ([-0.8, 0.1, 0.3, 0.2, 0.5, 0.1], [0.9, 0.5, 0.0, -0.6, 0.7, 0.8])];
    for (s, g) in pairs.iter() {
        // an obstacle exactly where the tool is at the midpoint of the straight joint-space segment: the direct connection is blocked, so
        // the planner needs several iterations and both trees grow
        let free = mk(vec![]);
        let mut mid = [0.0; 6]; for j in 0..6 { mid[j] = 0.5 * (s[j] + g[j]); }
        let t = free.forward(&mid).translation;
        for (blocked, step) in [(true, 0.05f64), (true, 0.15), (false, 0.1)] {
            let env = if blocked { vec![CollisionBody { mesh: cube(c.fo("esz", 0.12) as f32), pose: nalgebra::Isometry3::translation(t.x as f32, t.y as f32, t.z as f32) }] } else { vec![] };
            let k = mk(env);
            if k.collides(s) || k.collides(g) { continue; }
            let planner = RRTPlanner { step_size_joint_space: step, max_try: 3000, debug: false };
            for _rep in 0..5 {
                tried += 1;
                let stop = AtomicBool::new(false);
                match planner.plan_rrt(s, g, &k, &stop) {
                    Err(_) => { nerr += 1; }
                    Ok(path) => {
                        nok += 1; maxlen = maxlen.max(path.len());
                        if path.is_empty() || path[0] != *s { bad.push(format!("path does not begin with the start vector {:?}", s)); }
                        if path.last() != Some(g) { bad.push(format!("path does not end with the goal vector {:?}", g)); }
                        for n in &path { if k.collides(n) { bad.push(format!("path node {:?} is reported colliding", n)); } for j in 0..6 { if n[j] < from[j] - 1e-12 || n[j] > to[j] + 1e-12 { bad.push(format!("path node {:?} outside the limits", n)); } } }
                        for w in path.windows(2) { let d: f64 = (0..6).map(|j| (w[0][j] - w[1][j]).powi(2)).sum::<f64>().sqrt(); if d > 3.0 * step + 1e-9 { bad.push(format!("consecutive nodes {:.4} apart, more than three steps of {}", d, step)); } }
                    }
                }
                let raised = AtomicBool::new(true);
                if planner.plan_rrt(s, g, &k, &raised).is_ok() { bad.push("planner returned a path although the cancellation flag was raised before planning".into()); }
                // also when the goal is within one planner step of the start, or is the start itself
                for frac in [0.0f64, 0.4] {
                    let mut g2 = *s; let n: f64 = (0..6).map(|j| (g[j] - s[j]).powi(2)).sum::<f64>().sqrt();
                    if n > 0.0 { for j in 0..6 { g2[j] = s[j] + (g[j] - s[j]) / n * step * frac; } }
                    if planner.plan_rrt(s, &g2, &k, &raised).is_ok() { bad.push(format!("planner returned a path although the cancellation flag was raised before planning (goal {} steps from the start)", frac)); }
                }
            }
        }
    }
    // planar scene: J3..J6 (almost) frozen, so sampling is two-dimensional, with a step that is large compared to the sampled region - random samples
    // then regularly fall within one step of an existing tree vertex, and a box blocks the straight segment so that both trees must grow around it
    {
        let bx = |mn: [f32; 3], mx: [f32; 3]| { let p = |x: f32, y: f32, z: f32| nalgebra::Point3::new(x, y, z);
            TriMesh::new(vec![p(mn[0], mn[1], mn[2]), p(mx[0], mn[1], mn[2]), p(mn[0], mx[1], mn[2]), p(mx[0], mx[1], mn[2]), p(mn[0], mn[1], mx[2]), p(mx[0], mn[1], mx[2]), p(mn[0], mx[1], mx[2]), p(mx[0], mx[1], mx[2])],
                         vec![[0, 1, 2], [2, 1, 3], [4, 5, 6], [6, 5, 7], [2, 3, 6], [6, 3, 7], [0, 1, 4], [4, 1, 5], [0, 2, 4], [4, 2, 6], [1, 3, 5], [5, 3, 7]]).unwrap() };
        let e = 0.001; let lf = [-1.2, 0.2, -e, -e, -e, -e]; let lt = [1.2, 1.5, e, e, e, e];
        let mut pp = p; pp.a1 = 0.15; pp.a2 = 0.0; pp.b = 0.0; pp.c1 = 0.55; pp.c2 = 0.825; pp.c3 = 0.625; pp.c4 = 0.11; pp.offsets = [0.0; 6]; pp.sign_corrections = [1; 6]; pp.dof = 6;
        let k = KinematicsWithShape::with_safety(pp, Constraints::new(lf, lt, 0.0), [cube(0.04), cube(0.04), cube(0.04), cube(0.04), cube(0.04), cube(0.04)], cube(0.1), Pose::identity(),
            bx([-0.03, -0.03, -0.6], [0.03, 0.03, 0.0]), Pose::translation(0.0, 0.0, 0.6), vec![CollisionBody { mesh: bx([-0.25, -0.25, -0.25], [0.25, 0.25, 0.25]), pose: nalgebra::Isometry3::translation(1.3, 0.0, 0.9) }],
            SafetyDistances { to_environment: 0.0, to_robot_default: -1.0, special_distances: HashMap::new(), mode: CheckMode::FirstCollisionOnly });
        let (s, g) = ([-0.8, 1.3, 0.0, 0.0, 0.0, 0.0], [0.8, 1.3, 0.0, 0.0, 0.0, 0.0]); let step = 0.4;
        if !k.collides(&s) && !k.collides(&g) {
            let planner = RRTPlanner { step_size_joint_space: step, max_try: 2000, debug: false };
            for _rep in 0..150 {
                tried += 1; let stop = AtomicBool::new(false);
                if let Ok(path) = planner.plan_rrt(&s, &g, &k, &stop) {
                    nok += 1; maxlen = maxlen.max(path.len());
                    if path.first() != Some(&s) || path.last() != Some(&g) { bad.push("planar scene: path does not join start to goal".into()); }
                    for n in &path { if k.collides(n) { bad.push(format!("planar scene: path node {:?} is reported colliding", n)); } for j in 0..6 { if n[j] < lf[j] - 1e-12 || n[j] > lt[j] + 1e-12 { bad.push(format!("planar scene: node {:?} outside the limits", n)); } } }
                    for w in path.windows(2) { let d: f64 = (0..6).map(|j| (w[0][j] - w[1][j]).powi(2)).sum::<f64>().sqrt(); if d > 3.0 * step + 1e-9 { bad.push(format!("planar scene: consecutive nodes {:.4} apart, more than three steps", d)); } }
                } else { nerr += 1; }
            }
            // a very fine planner step is honoured: consecutive nodes at most three of THE CONFIGURED steps apart (short free relocation, so the tree stays small)
            for fine in [0.0004f64, 0.0006] {
                let planner = RRTPlanner { step_size_joint_space: fine, max_try: 4000, debug: false };
                let (s2, g2) = ([-0.8, 1.3, 0.0, 0.0, 0.0, 0.0], [-0.79, 1.305, 0.0, 0.0, 0.0, 0.0]);
                for _rep in 0..3 {
                    tried += 1; let stop = AtomicBool::new(false);
                    if let Ok(path) = planner.plan_rrt(&s2, &g2, &k, &stop) {
                        if path.first() != Some(&s2) || path.last() != Some(&g2) { bad.push("fine step: path does not join start to goal".into()); }
                        for w in path.windows(2) { let d: f64 = (0..6).map(|j| (w[0][j] - w[1][j]).powi(2)).sum::<f64>().sqrt(); if d > 3.0 * fine + 1e-12 { bad.push(format!("fine step {}: consecutive nodes {:.6} apart = {:.1} planner steps", fine, d, d / fine)); break; } }
                    }
                }
            }
        }
    }
    println!("plans_ok={} plans_err={} longest_path={}", nok, nerr, maxlen); println!("native_cases={}", tried); bad.dedup(); for b in bad.iter().take(5) { println!("diff={}", b); } println!("reproduced={}", !bad.is_empty());
}

use rs_opw_kinematics::parameters::opw_kinematics::Parameters as P19;
fn write_tmp(name: &str, txt: &str) -> String { let p = std::env::temp_dir().join(format!("verif_c19_{}_{}.yaml", std::process::id(), name)); std::fs::write(&p, txt).unwrap(); p.to_string_lossy().to_string() }
/// C19: documents are written as TEXT from the case (scalar types, dof placement, array lengths, offset syntaxes) and read by the real reader; plus round trips of to_yaml
pub fn c19(c: &Case) {
    let mut bad: Vec<String> = Vec::new(); let mut tried = 0;
    let clause = c.s("clause");
    let geo = ["a1", "a2", "b", "c1", "c2", "c3", "c4"]; let gv_real = [0.15, -0.11, 0.05, 0.55, 0.61, 0.66, 0.12]; let gv_int = [1.0, -2.0, 0.0, 3.0, 1.0, 2.0, 0.0];
    let mut docs: Vec<(String, Option<P19>)> = Vec::new();
    if clause == "tree" || clause == "to_yaml" || clause.is_empty() {
        let ints_all: Vec<Vec<f64>> = match c.vo("ints") { Some(v) => vec![v], None => vec![vec![0.0; 7], vec![1.0; 7], vec![0.0, 0.0, 1.0, 0.0, 0.0, 0.0, 0.0], vec![1.0, 0.0, 0.0, 1.0, 0.0, 1.0, 0.0]] };
        let places: Vec<String> = if c.s("dof_place").is_empty() { vec!["top".into(), "nested".into(), "None".into()] } else { vec![c.s("dof_place")] };
        for ints in &ints_all { for place in &places { for dof in [5i8, 6] { for n_signs in [6usize, 5] {
            let mut t = String::from("opw_kinematics_geometric_parameters:\n"); let mut vals = [0.0; 7];
            for i in 0..7 { let v = if ints[i] != 0.0 { gv_int[i] } else { gv_real[i] }; vals[i] = v; if ints[i] != 0.0 { t += &format!("  {}: {}\n", geo[i], v as i64); } else { t += &format!("  {}: {:?}\n", geo[i], v); } }
            if place == "nested" { t += &format!("  dof: {}\n", dof); }
            t += "opw_kinematics_joint_offsets: [0, 0.5, deg(-90.0), 0.25, deg(45), -1]\n";
            t += &format!("opw_kinematics_joint_sign_corrections: [{}]\n", if n_signs == 6 { "1, 1, -1, -1, -1, -1" } else { "1, 1, -1, -1, -1" });
            if place == "top" { t += &format!("dof: {}\n", dof); }
            let edof = if place == "None" { 6 } else { dof };
            let mut sg = [1i8, 1, -1, -1, -1, if n_signs == 6 { -1 } else { 0 }]; if edof == 5 { sg[5] = 0; }
            let want = P19 { a1: vals[0], a2: vals[1], b: vals[2], c1: vals[3], c2: vals[4], c3: vals[5], c4: vals[6], offsets: [0.0, 0.5, (-90.0f64).to_radians(), 0.25, 45.0f64.to_radians(), -1.0], sign_corrections: sg, dof: edof };
            docs.push((t, Some(want)));
        } } } }
        // round trips of the library's own output
        for (b, dof, sg5) in [(0.0, 6i8, -1i8), (0.05, 5, 0), (-2.0, 6, 1)] {
            let p = P19 { a1: 1.0, a2: -0.11, b, c1: 0.55, c2: 2.0, c3: 0.66, c4: 0.0, offsets: [0.0, 0.1, (-90.0f64).to_radians(), 0.0, 0.0, 180.0f64.to_radians()], sign_corrections: [1, -1, 1, -1, 1, sg5], dof };
            docs.push((p.to_yaml(), Some(p)));
        }
        // small calibration offsets: whatever is written must read back within the printed precision (4 decimals of a degree = 8.7e-7 rad; the comparison below allows 1e-6)
        for small in [1.0e-5f64, -4.0e-5, 0.0025f64.to_radians(), -0.001f64.to_radians(), 3.0e-6] {
            let p = P19 { a1: 1.0, a2: -0.11, b: 0.0, c1: 0.55, c2: 2.0, c3: 0.66, c4: 0.1, offsets: [0.0, small, 0.5, -small, 0.0, 2.0 * small], sign_corrections: [1, 1, -1, 1, 1, 1], dof: 6 };
            docs.push((p.to_yaml(), Some(p)));
        }
    }
    if clause == "malformed" || clause.is_empty() {
        for t in ["", "\n", "opw_kinematics_geometric_parameters:\n  a1: 1.0\n", "just a string", "- 1\n- 2\n", "opw_kinematics_geometric_parameters: 5\n",
                  "opw_kinematics_geometric_parameters:\n  a1: 0.1\n  a2: 0.1\n  b: 0.0\n  c1: 0.1\n  c2: 0.1\n  c3: 0.1\n  c4: 0.1\nopw_kinematics_joint_offsets: [0, 0, 0, 0]\n",
                  "opw_kinematics_geometric_parameters:\n  a1: 0.1\n  a2: 0.1\n  b: 0.0\n  c1: 0.1\n  c2: 0.1\n  c3: 0.1\n  c4: 0.1\nopw_kinematics_joint_offsets: [0, deg(x), 0, 0, 0, 0]\n"] { docs.push((t.to_string(), None)); }
    }
    for (i, (txt, want)) in docs.iter().enumerate() {
        tried += 1;
        let path = write_tmp(&format!("{}", i), txt);
        let r = std::panic::catch_unwind(|| P19::from_yaml_file(&path));
        let _ = std::fs::remove_file(&path);
        match (r, want) {
            (Err(_), _) => bad.push(format!("the reader PANICS on:\n{}", txt)),
            (Ok(Err(e)), Some(_)) => bad.push(format!("a document in the documented format is rejected ({}):\n{}", e, txt)),
            (Ok(Ok(_)), None) => { if txt.trim().is_empty() || !txt.contains("c4") { bad.push(format!("a malformed document is accepted:\n{}", txt)); } }
            (Ok(Err(_)), None) => {}
            (Ok(Ok(p)), Some(w)) => {
                let g = [(p.a1, w.a1), (p.a2, w.a2), (p.b, w.b), (p.c1, w.c1), (p.c2, w.c2), (p.c3, w.c3), (p.c4, w.c4)];
                if g.iter().any(|(a, b)| (a - b).abs() > 1e-12) || p.dof != w.dof || p.sign_corrections != w.sign_corrections || (0..6).any(|k| (p.offsets[k] - w.offsets[k]).abs() > 1e-6) {
                    bad.push(format!("read back dof={} signs={:?} offsets={:?} geometry={:?}, expected dof={} signs={:?} from:\n{}", p.dof, p.sign_corrections, p.offsets, [p.a1, p.a2, p.b, p.c1, p.c2, p.c3, p.c4], w.dof, w.sign_corrections, txt)); }
            }
        }
    }
    println!("native_cases={}", tried); bad.dedup(); for b in bad.iter().take(4) { println!("diff={}", b.replace("\n", " | ")); } println!("reproduced={}", !bad.is_empty());
}
