use crate::Case;
use crate::oracle::*;
use rs_opw_kinematics::constraints::Constraints;
use rs_opw_kinematics::kinematic_traits::{Kinematics, Pose, Joints};
use rs_opw_kinematics::kinematics_impl::OPWKinematics;
use rs_opw_kinematics::parameters::opw_kinematics::Parameters;

/// params=a1,a2,b,c1,c2,c3,c4  off=6  sign=6  [dof=..]; defaults: a generic non-degenerate robot
pub fn opw_of(c: &Case) -> (Opw, Parameters) {
    let g = c.vo("params").unwrap_or(vec![0.15, -0.11, 0.05, 0.55, 0.61, 0.66, 0.12]);
    let off = c.vo("off").unwrap_or(vec![0.0; 6]); let sg = c.vo("sign").unwrap_or(vec![1.0; 6]);
    let o = Opw { a1: g[0], a2: g[1], b: g[2], c1: g[3], c2: g[4], c3: g[5], c4: g[6], off: [off[0], off[1], off[2], off[3], off[4], off[5]],
                  sign: [sg[0], sg[1], sg[2], sg[3], sg[4], sg[5]] };
    let p = Parameters { a1: g[0], a2: g[1], b: g[2], c1: g[3], c2: g[4], c3: g[5], c4: g[6], offsets: o.off,
                         sign_corrections: [sg[0] as i8, sg[1] as i8, sg[2] as i8, sg[3] as i8, sg[4] as i8, sg[5] as i8], dof: c.fo("dof", 6.0) as i8 };
    (o, p)
}
pub fn pose_of(i: &Iso) -> Pose {
    let r = nalgebra::Rotation3::from_matrix_unchecked(nalgebra::Matrix3::new(i.r[0][0], i.r[0][1], i.r[0][2], i.r[1][0], i.r[1][1], i.r[1][2], i.r[2][0], i.r[2][1], i.r[2][2]));
    Pose::from_parts(nalgebra::Translation3::new(i.t[0], i.t[1], i.t[2]), nalgebra::UnitQuaternion::from_rotation_matrix(&r))
}
pub fn iso_of(p: &Pose) -> Iso {
    let m = p.rotation.to_rotation_matrix(); let mut r = [[0.0; 3]; 3];
    for i in 0..3 { for j in 0..3 { r[i][j] = m[(i, j)]; } }
    Iso { r, t: [p.translation.x, p.translation.y, p.translation.z] }
}

pub fn run(pid: &str, c: &Case) {
    match pid {
        "C07" => c07(c),
        "C18" => c18(c),
        "C05" => c05(c),
        "C03" => c03(c),
        _ => { println!("reproduced=false"); println!("error=unknown property {}", pid); }
    }
}

/// case: from=6 to=6 x=6 [ctor=new|degrees|update]  expected verdict from the oracle with 1e-9 margin
fn c07(c: &Case) {
    let (from, to, x) = (c.a6("from"), c.a6("to"), c.a6("x"));
    let ctor = c.s("ctor");
    let cons = match ctor.as_str() {
        "degrees" => Constraints::from_degrees([
            from[0].to_degrees()..=to[0].to_degrees(), from[1].to_degrees()..=to[1].to_degrees(), from[2].to_degrees()..=to[2].to_degrees(),
            from[3].to_degrees()..=to[3].to_degrees(), from[4].to_degrees()..=to[4].to_degrees(), from[5].to_degrees()..=to[5].to_degrees()], 0.0),
        "update" => { let mut k = Constraints::new([0.0; 6], [1.0; 6], 0.0); k.update_range(from, to); k }
        _ => Constraints::new(from, to, 0.0),
    };
    let got = cons.compliant(&x);
    let mut want = Some(true);
    for j in 0..6 {
        match arc_accepts(from[j], to[j], x[j], 1e-9) {
            None => { want = None; break; }
            Some(false) => { want = Some(false); }
            Some(true) => {}
        }
    }
    println!("compliant={}", got);
    match want {
        None => { println!("oracle=boundary"); println!("reproduced=false"); }
        Some(w) => { println!("oracle={}", w); println!("reproduced={}", w != got); }
    }
}

/// case: from=6 to=6 [panic=true]; the thread-local RNG cannot be driven, so the real sampler is run 200000 times
/// and every draw is judged by the arc oracle (1e-9 margin); a panic of the sampler also reproduces.
fn c18(c: &Case) {
    let (from, to) = (c.a6("from"), c.a6("to"));
    let cons = Constraints::new(from, to, 0.0);
    let r = std::panic::catch_unwind(|| {
        let mut bad = 0usize; let mut first: Option<[f64; 6]> = None;
        for _ in 0..200000 {
            let q = cons.random_angles();
            let mut ok = true;
            for j in 0..6 {
                if !q[j].is_finite() { ok = false; }
                if let Some(false) = arc_accepts(from[j], to[j], q[j], 1e-9) { ok = false; }
            }
            if !ok { bad += 1; if first.is_none() { first = Some(q); } }
        }
        (bad, first)
    });
    match r {
        Err(_) => {
            // a panic only violates the property for arcs of positive width
            let mut positive = true;
            for j in 0..6 { if from[j] > to[j] { let mut b = to[j]; while b < from[j] { b += 2.0 * std::f64::consts::PI; } if b - from[j] <= 0.0 { positive = false; } } }
            println!("panicked=true"); println!("reproduced={}", positive);
        }
        Ok((bad, first)) => { println!("non_compliant_draws={} of 200000", bad); if let Some(q) = first { println!("first_bad={:?}", q); } println!("reproduced={}", bad > 0 && c.s("panic") != "true"); }
    }
}

/// C05(a): joints=6 + robot; oracle: axes of joints 4 and 6 (z columns of link frames 4 and 6 of the independent chain)
/// are collinear within 0.01 degree  <=>  reported singular. Cases within 1e-9 rad of the band edge do not count.
fn c05(c: &Case) {
    let (o, p) = opw_of(c); let j = c.a6("joints");
    let k = OPWKinematics::new(p);
    let got = k.kinematic_singularity(&j).is_some();
    let ch = chain(&o, &j);
    let z4 = [ch[3].r[0][2], ch[3].r[1][2], ch[3].r[2][2]]; let z6 = [ch[5].r[0][2], ch[5].r[1][2], ch[5].r[2][2]];
    let cr = [z4[1] * z6[2] - z4[2] * z6[1], z4[2] * z6[0] - z4[0] * z6[2], z4[0] * z6[1] - z4[1] * z6[0]];
    let sn = (cr[0] * cr[0] + cr[1] * cr[1] + cr[2] * cr[2]).sqrt();           // |sin| of the angle between the axes
    let ang = sn.asin();                                                          // angle to the nearest (anti)parallel position
    let thr = 0.01f64.to_radians();
    println!("reported={}", got); println!("axis_angle={:e}", ang);
    if (ang - thr).abs() < 1e-9 { println!("oracle=boundary"); println!("reproduced=false"); return; }
    let want = ang < thr;
    println!("oracle={}", want); println!("reproduced={}", want != got);
}

fn iso_diff(a: &Iso, b: &Iso) -> (f64, f64) { (dist(&a.t, &b.t), rot_angle(&a.r, &b.r).abs()) }

/// C03: params/off/sign/joints -> real forward and forward_with_joint_poses vs the independent chain.
/// Reproduced when any pose differs by more than 1e-7 (relative to the robot size) or a rotation is not proper.
fn c03(c: &Case) {
    let (o, p) = opw_of(c); let j = c.a6("joints");
    let k = OPWKinematics::new(p);
    let ch = chain(&o, &j);
    let scale = 1.0 + [o.a1, o.a2, o.b, o.c1, o.c2, o.c3, o.c4].iter().map(|x| x.abs()).sum::<f64>();
    let f = iso_of(&k.forward(&j));
    let ps = k.forward_with_joint_poses(&j);
    let mut bad = Vec::new();
    let (dt, dr) = iso_diff(&f, &ch[5]);
    if !(dt <= 1e-7 * scale && dr <= 1e-7) { bad.push(format!("forward vs chain: dt={:e} dr={:e}", dt, dr)); }
    for i in 0..6 {
        let (dt, dr) = iso_diff(&iso_of(&ps[i]), &ch[i]);
        if !(dt <= 1e-7 * scale && dr <= 1e-7) { bad.push(format!("poses[{}] vs chain: dt={:e} dr={:e}", i, dt, dr)); }
    }
    let rrt = mm(&f.r, &tr(&f.r));
    for i in 0..3 { for k2 in 0..3 { if (rrt[i][k2] - if i == k2 { 1.0 } else { 0.0 }).abs() > 1e-7 { bad.push(format!("forward R R^T [{}][{}] = {}", i, k2, rrt[i][k2])); } } }
    if (det(&f.r) - 1.0).abs() > 1e-7 { bad.push(format!("det forward.R = {}", det(&f.r))); }
    let fin = f.t.iter().all(|x| x.is_finite()) && f.r.iter().all(|r| r.iter().all(|x| x.is_finite()));
    let inputs_finite = j.iter().all(|x| x.is_finite()) && scale.is_finite() && o.off.iter().all(|x| x.is_finite());
    if inputs_finite && !fin { bad.push("non-finite forward".into()); }
    for b in &bad { println!("diff={}", b); }
    println!("reproduced={}", !bad.is_empty());
}
