use crate::Case;
use crate::oracle::*;
use rs_opw_kinematics::constraints::Constraints;

pub fn run(pid: &str, c: &Case) {
    match pid {
        "C07" => c07(c),
        _ => { println!("reproduced=false"); println!("error=unknown property {}", pid); }
    }
}

/// case: from=6 to=6 x=6 [ctor=new|degrees|update]  expected verdict from the oracle with 1e-9 margin
fn c07(c: &Case) {
    let (from, to, x) = (c.a6("from"), c.a6("to"), c.a6("x"));
    let ctor = c.s("ctor");
    let cons = match ctor.as_str() {
        "degrees" => Constraints::from_degrees([
            from[0].to_degrees()..=to[0].to_degrees(), from[1].to_degrees()..=to[1].to_degrees(), from[2].to_degrees()..=to[2].to_degrees(),
            from[3].to_degrees()..=to[3].to_degrees(), from[4].to_degrees()..=to[4].to_degrees(), from[5].to_degrees()..=to[5].to_degrees()], 0.0),
        "update" => { let mut k = Constraints::new([0.0; 6], [1.0; 6], 0.0); k.update_range(from, to); k }
        _ => Constraints::new(from, to, 0.0),
    };
    let got = cons.compliant(&x);
    let mut want = Some(true);
    for j in 0..6 {
        match arc_accepts(from[j], to[j], x[j], 1e-9) {
            None => { want = None; break; }
            Some(false) => { want = Some(false); }
            Some(true) => {}
        }
    }
    println!("compliant={}", got);
    match want {
        None => { println!("oracle=boundary"); println!("reproduced=false"); }
        Some(w) => { println!("oracle={}", w); println!("reproduced={}", w != got); }
    }
}
