use crate::oracle::*;
use crate::battery::*;
use crate::Case;
use crate::props::{pose_of, iso_of};
use rs_opw_kinematics::kinematic_traits::{Kinematics, Joints, Pose, CONSTRAINT_CENTERED};
use rs_opw_kinematics::kinematics_impl::OPWKinematics;
use std::f64::consts::PI;

const TOL: f64 = 1.0e-6 * 1.02;

fn finish(bad: Vec<String>, tried: usize) {
    let mut b = bad; b.dedup();
    println!("native_cases={}", tried);
    for x in b.iter().take(6) { println!("diff={}", x); }
    println!("reproduced={}", !b.is_empty());
}

/// C01: sign/off/params/dof (+ optional pose_t/pose_r of a solver model); the four entry points on a battery of reachable,
/// singular, unreachable and non-finite poses; every answer finite, landing on the pose through the independent chain, plain inverse in [-pi,pi]; no panic.
pub fn c01(c: &Case) {
    let mut bad: Vec<String> = Vec::new(); let mut tried = 0usize;
    for (o, p) in robots(c) {
        let dof5 = p.dof == 5;
        let k = OPWKinematics::new(p);
        let mut poses: Vec<(Iso, Option<[f64; 6]>)> = joint_battery(60, 1).into_iter().map(|q| (fk(&o, &q), Some(q))).collect();
        if let (Some(t), Some(r)) = (c.vo("pose_t"), c.vo("pose_r")) { poses.push((Iso { r: [[r[0], r[1], r[2]], [r[3], r[4], r[5]], [r[6], r[7], r[8]]], t: [t[0], t[1], t[2]] }, None)); }
        // out of reach, on the J1 axis, fully stretched
        poses.push((Iso { r: I3, t: [50.0, 3.0, 1.0] }, None)); poses.push((Iso { r: I3, t: [0.0, 0.0, 1.0] }, None));
        poses.push((fk(&o, &[0.3, 1.2, -(o.a2.atan2(o.c3)) + PI / 2.0, 0.2, 0.4, 0.1]), None));
        for (pose, q) in poses.iter() {
            tried += 1;
            let pp = pose_of(pose);
            let prevs: Vec<Joints> = vec![q.unwrap_or([0.1; 6]), CONSTRAINT_CENTERED, [5.5, -5.9, 6.1, -4.0, 4.4, 6.2]];
            let r = std::panic::catch_unwind(|| {
                let mut bad: Vec<String> = Vec::new();
                let plain = k.inverse(&pp);
                for s in &plain {
                    if let Err(e) = lands(&o, s, pose, !dof5, TOL) { bad.push(format!("inverse: {}", e)); }
                    if !dof5 && s.iter().any(|x| x.abs() > PI + 1e-12) { bad.push(format!("inverse: angle outside [-pi,pi] in {:?}", s)); }
                }
                for prev in &prevs {
                    for s in &k.inverse_continuing(&pp, prev) { if let Err(e) = lands(&o, s, pose, !dof5, TOL) { bad.push(format!("inverse_continuing: {}", e)); } }
                    for s in &k.inverse_continuing_5dof(&pp, prev) { if prev[5].is_finite() { if let Err(e) = lands(&o, s, pose, false, TOL) { bad.push(format!("inverse_continuing_5dof: {}", e)); } } }
                }
                for s in &k.inverse_5dof(&pp, 0.77) { if let Err(e) = lands(&o, s, pose, false, TOL) { bad.push(format!("inverse_5dof: {}", e)); } }
                bad
            });
            match r { Ok(b) => bad.extend(b), Err(_) => bad.push(format!("panic for pose {:?}", pose)) }
        }
        // non-finite pose components: never a panic, never a non-finite answer
        for (idx, v) in [(0usize, f64::NAN), (1, f64::INFINITY), (2, f64::NEG_INFINITY)] {
            let mut t = [0.5, 0.1, 0.9]; t[idx] = v;
            let pp = Pose::from_parts(nalgebra::Translation3::new(t[0], t[1], t[2]), nalgebra::UnitQuaternion::identity());
            tried += 1;
            let r = std::panic::catch_unwind(|| {
                let mut all = k.inverse(&pp); all.extend(k.inverse_continuing(&pp, &[0.1; 6])); all.extend(k.inverse_5dof(&pp, 0.3)); all.extend(k.inverse_continuing_5dof(&pp, &[0.1; 6])); all });
            match r { Ok(all) => { for s in all { if !s.iter().all(|x| x.is_finite()) { bad.push(format!("non-finite answer {:?} for a non-finite pose", s)); } } }, Err(_) => bad.push("panic for a non-finite pose".into()) }
        }
    }
    finish(bad, tried);
}
