use crate::oracle::*;
use crate::battery::*;
use crate::Case;
use crate::props::{pose_of, iso_of};
use rs_opw_kinematics::kinematic_traits::{Kinematics, Joints, Pose, CONSTRAINT_CENTERED};
use rs_opw_kinematics::kinematics_impl::OPWKinematics;
use std::f64::consts::PI;

const TOL: f64 = 1.0e-6 * 1.02;

fn finish(bad: Vec<String>, tried: usize) {
    let mut b = bad; b.dedup();
    println!("native_cases={}", tried);
    for x in b.iter().take(6) { println!("diff={}", x); }
    println!("reproduced={}", !b.is_empty());
}

/// C01: sign/off/params/dof (+ optional pose_t/pose_r of a solver model); the four entry points on a battery of reachable,
/// singular, unreachable and non-finite poses; every answer finite, landing on the pose through the independent chain, plain inverse in [-pi,pi]; no panic.
pub fn c01(c: &Case) {
    let mut bad: Vec<String> = Vec::new(); let mut tried = 0usize;
    for (o, p) in robots(c) {
        let dof5 = p.dof == 5;
        let k = OPWKinematics::new(p);
        let mut poses: Vec<(Iso, Option<[f64; 6]>)> = joint_battery(60, 1).into_iter().map(|q| (fk(&o, &q), Some(q))).collect();
        if let (Some(t), Some(r)) = (c.vo("pose_t"), c.vo("pose_r")) { poses.push((Iso { r: [[r[0], r[1], r[2]], [r[3], r[4], r[5]], [r[6], r[7], r[8]]], t: [t[0], t[1], t[2]] }, None)); }
        // out of reach, on the J1 axis, fully stretched
        poses.push((Iso { r: I3, t: [50.0, 3.0, 1.0] }, None)); poses.push((Iso { r: I3, t: [0.0, 0.0, 1.0] }, None));
        poses.push((fk(&o, &[0.3, 1.2, -(o.a2.atan2(o.c3)) + PI / 2.0, 0.2, 0.4, 0.1]), None));
        for (pose, q) in poses.iter() {
            tried += 1;
            let pp = pose_of(pose);
            let prevs: Vec<Joints> = vec![q.unwrap_or([0.1; 6]), CONSTRAINT_CENTERED, [5.5, -5.9, 6.1, -4.0, 4.4, 6.2]];
            let r = std::panic::catch_unwind(|| {
                let mut bad: Vec<String> = Vec::new();
                let plain = k.inverse(&pp);
                for s in &plain {
                    if let Err(e) = lands(&o, s, pose, !dof5, TOL) { bad.push(format!("inverse: {}", e)); }
                    if !dof5 && s.iter().any(|x| x.abs() > PI + 1e-12) { bad.push(format!("inverse: angle outside [-pi,pi] in {:?}", s)); }
                }
                for prev in &prevs {
                    for s in &k.inverse_continuing(&pp, prev) { if let Err(e) = lands(&o, s, pose, !dof5, TOL) { bad.push(format!("inverse_continuing: {}", e)); } }
                    for s in &k.inverse_continuing_5dof(&pp, prev) { if prev[5].is_finite() { if let Err(e) = lands(&o, s, pose, false, TOL) { bad.push(format!("inverse_continuing_5dof: {}", e)); } } }
                }
                for s in &k.inverse_5dof(&pp, 0.77) { if let Err(e) = lands(&o, s, pose, false, TOL) { bad.push(format!("inverse_5dof: {}", e)); } }
                bad
            });
            match r { Ok(b) => bad.extend(b), Err(_) => bad.push(format!("panic for pose {:?}", pose)) }
        }
        // non-finite pose components: never a panic, never a non-finite answer
        for (idx, v) in [(0usize, f64::NAN), (1, f64::INFINITY), (2, f64::NEG_INFINITY)] {
            let mut t = [0.5, 0.1, 0.9]; t[idx] = v;
            let pp = Pose::from_parts(nalgebra::Translation3::new(t[0], t[1], t[2]), nalgebra::UnitQuaternion::identity());
            tried += 1;
            let r = std::panic::catch_unwind(|| {
                let mut all = k.inverse(&pp); all.extend(k.inverse_continuing(&pp, &[0.1; 6])); all.extend(k.inverse_5dof(&pp, 0.3)); all.extend(k.inverse_continuing_5dof(&pp, &[0.1; 6])); all });
            match r { Ok(all) => { for s in all { if !s.iter().all(|x| x.is_finite()) { bad.push(format!("non-finite answer {:?} for a non-finite pose", s)); } } }, Err(_) => bad.push("panic for a non-finite pose".into()) }
        }
    }
    finish(bad, tried);
}

use rs_opw_kinematics::constraints::Constraints;
fn near_mod(a: f64, b: f64, tol: f64) -> bool { let d = (a - b).rem_euclid(2.0 * PI); d.min(2.0 * PI - d) <= tol }
fn same_mod(a: &Joints, b: &Joints, tol: f64, n: usize) -> bool { (0..n).all(|i| near_mod(a[i], b[i], tol)) }
fn cost(a: &Joints, prev: &Joints, cen: &Joints, w: f64) -> f64 {
    let dp: f64 = (0..6).map(|i| (a[i] - prev[i]).abs()).sum(); let dc: f64 = (0..6).map(|i| (a[i] - cen[i]).abs()).sum();
    if w == 0.0 { dp } else if w == 1.0 { dc } else { dp * (1.0 - w) + dc * w }
}
fn constraint_sets(r: &mut Lcg) -> Vec<([f64; 6], [f64; 6])> {
    let mut v = Vec::new();
    v.push(([-2.9, -1.9, -2.3, -3.1, -2.1, -3.1], [2.9, 1.9, 2.3, 3.1, 2.1, 3.1]));                  // wide
    v.push(([2.0, -1.0, 1.5, 2.5, -0.5, 3.0], [-2.0, 1.0, -1.5, -2.5, 0.5, -3.0]));                  // several wrapping
    v.push(([0.0, 0.0, 0.0, 0.0, 0.0, 0.0], [0.0, 1.5, 0.0, 3.0, 0.0, 0.0]));                        // from == to on four joints
    v.push(([0.35, -1.9, 1.0, 1.75, -2.0, 2.0], [-0.35, 1.9, -1.0, 4.5, 2.0, 4.2]));                 // centres near +-pi (wrap-around and ranges reaching beyond pi)
    for _ in 0..4 { let mut f = [0.0; 6]; let mut t = [0.0; 6]; for j in 0..6 { f[j] = r.range(-3.1, 3.1); t[j] = if r.next() < 0.2 { f[j] } else { r.range(-3.1, 3.1) }; } v.push((f, t)); }
    v
}

/// shared native search for C04 / C06 / C08 (and the entry-point part of C01): prop selects the clauses that are judged
pub fn ik_search(c: &Case, prop: &str) {
    let mut bad: Vec<String> = Vec::new(); let mut tried = 0usize;
    let mut rng = Lcg(4242);
    let weights = [0.0, 1.0, 0.35];
    for (o, p) in robots(c) {
        let dof5 = p.dof == 5;
        let plain = OPWKinematics::new(p);
        let csets = constraint_sets(&mut rng);
        for (ci, (from, to)) in csets.iter().enumerate() {
            let w = weights[ci % 3];
            let cons = Constraints::new(*from, *to, w);
            let k = OPWKinematics::new_with_constraints(p, cons);
            for q in joint_battery(14, 7 + ci as u64) {
                tried += 1;
                let mut qq = q; if dof5 { qq[5] = 0.0; }
                let pose = fk(&o, &qq); let pp = pose_of(&pose);
                let wrist_singular = (qq[4] * o.sign[4] - o.off[4]).sin().abs() < 1e-3;
                let mut prev = qq; for j in 0..6 { prev[j] += rng.range(-0.2, 0.2); }
                let accept = |s: &Joints| -> Option<bool> { let mut all = Some(true); for j in 0..6 { match arc_accepts(from[j], to[j], s[j], 1e-9) { None => { all = None; break; } Some(false) => all = Some(false), _ => {} } } all };
                let r = std::panic::catch_unwind(|| {
                    let mut bad: Vec<String> = Vec::new();
                    let runs: Vec<(&str, Vec<Joints>, Vec<Joints>, Option<Joints>)> = vec![
                        ("inverse", k.inverse(&pp), plain.inverse(&pp), None),
                        ("inverse_continuing", k.inverse_continuing(&pp, &prev), plain.inverse_continuing(&pp, &prev), Some(prev)),
                        ("inverse_5dof", k.inverse_5dof(&pp, 0.77), plain.inverse_5dof(&pp, 0.77), None),
                        ("inverse_continuing_5dof", k.inverse_continuing_5dof(&pp, &prev), plain.inverse_continuing_5dof(&pp, &prev), Some(prev)),
                    ];
                    for (name, got, unc, pv) in runs.iter() {
                        let five = name.ends_with("5dof") || dof5; let nj = if five { 5 } else { 6 };
                        if prop == "C08" || prop == "C01" {
                            for s in got { if let Some(false) = accept(s) { bad.push(format!("{}: answer {:?} violates the limits from={:?} to={:?}", name, s, from, to)); } }
                            for u in unc { if let Some(true) = accept(u) { if !got.iter().any(|s| same_mod(s, u, 1e-6, 6)) { bad.push(format!("{}: compliant answer {:?} of the unconstrained query is withheld (from={:?} to={:?})", name, u, from, to)); } } }
                        }
                        if prop == "C01" { for s in got { if let Err(e) = lands(&o, s, &pose, !five, TOL) { bad.push(format!("{}: {}", name, e)); } } }
                        if prop == "C06" && five {
                            let want6 = match *name { "inverse" => Some(0.0), "inverse_5dof" => Some(0.77), _ => Some(prev[5]) };
                            for s in unc { if let Some(w6) = want6 { if s[5] != w6 { bad.push(format!("{}: J6 = {} instead of the caller's {}", name, s[5], w6)); } }
                                           if let Err(e) = lands(&o, s, &pose, false, TOL) { bad.push(format!("{}: {}", name, e)); } }
                            if !wrist_singular && !unc.iter().any(|s| same_mod(s, &qq, 1e-5, 5)) { bad.push(format!("{}: originating J1..J5 {:?} not among the answers (dof={})", name, qq, if dof5 { 5 } else { 6 })); }
                        }
                        if prop == "C04" {
                            if let Some(pv) = pv {
                                for s in unc { for j in 0..nj.max(6) { if (s[j] - pv[j]).abs() > PI + 1e-9 { bad.push(format!("{}: joint {} of {:?} is not the representative nearest to previous {:?}", name, j, s, pv)); } } }
                                let cen = cons.centers;
                                for pair in got.windows(2) { if cost(&pair[0], pv, &cen, w) > cost(&pair[1], pv, &cen, w) + 1e-9 { bad.push(format!("{}: answers not ordered by the documented cost (weight {})", name, w)); } }
                                for pair in unc.windows(2) { if cost(&pair[0], pv, &[0.0; 6], 0.0) > cost(&pair[1], pv, &[0.0; 6], 0.0) + 1e-9 { bad.push(format!("{}: answers not ordered by distance to previous", name)); } }
                                let base = if five { plain.inverse_5dof(&pp, pv[5]) } else { plain.inverse(&pp) };
                                for b in &base { if !unc.iter().any(|s| same_mod(s, b, 1e-6, nj)) { bad.push(format!("{}: plain answer {:?} missing from the continuation answers", name, b)); } }
                            }
                        }
                    }
                    // the CONSTRAINT_CENTERED sentinel: representatives nearest to the constraint centres, ordered by distance to them
                    if prop == "C04" && !dof5 {
                        let cen = cons.centers;
                        let got = k.inverse_continuing(&pp, &CONSTRAINT_CENTERED);
                        for s in &got { for j in 0..6 { if (s[j] - cen[j]).abs() > PI + 1e-9 { bad.push(format!("inverse_continuing(CONSTRAINT_CENTERED): joint {} of {:?} is not the representative nearest to the centre {}", j, s, cen[j])); } } }
                        for pair in got.windows(2) { if cost(&pair[0], &cen, &cen, w) > cost(&pair[1], &cen, &cen, w) + 1e-9 { bad.push("inverse_continuing(CONSTRAINT_CENTERED): answers not ordered by distance to the constraint centres".into()); } }
                    }
                    // J6 values beyond half a turn must be carried through unchanged too
                    if prop == "C06" {
                        for j6 in [3.5f64, -4.0, 20.0] {
                            for s in plain.inverse_5dof(&pp, j6) { if s[5] != j6 { bad.push(format!("inverse_5dof: J6 = {} instead of the caller's {}", s[5], j6)); } }
                            let mut pv = prev; pv[5] = j6;
                            for s in plain.inverse_continuing_5dof(&pp, &pv) { if (s[5] - j6).abs() > 1e-12 { bad.push(format!("inverse_continuing_5dof: J6 = {} instead of the previous {}", s[5], j6)); } }
                            if dof5 { for s in plain.inverse_continuing(&pp, &pv) { if (s[5] - j6).abs() > 1e-12 { bad.push(format!("inverse_continuing (dof=5): J6 = {} instead of the previous {}", s[5], j6)); } } }
                        }
                    }
                    // inside the thresholded singularity band (0 < |q5| < 0.01 deg) J4 is not free: the answers must still land when previous J4 is far away
                    if prop == "C06" {
                        for (e5, d4) in [(3.0e-5f64, 1.5f64), (1.0e-4, -2.4), (-8.0e-5, 0.9), (1.6e-4, 3.0)] {
                            let mut qs = qq; qs[4] = (e5 + o.off[4]) * o.sign[4];
                            let pose_s = fk(&o, &qs); let pps = pose_of(&pose_s);
                            let mut pv = qs; pv[3] += d4; pv[0] += 0.05;
                            for s in plain.inverse_continuing_5dof(&pps, &pv) { if let Err(e) = lands(&o, &s, &pose_s, false, TOL) { bad.push(format!("inverse_continuing_5dof near the wrist singularity (q5 = {}, previous J4 off by {}): {}", e5, d4, e)); } }
                            for s in plain.inverse_5dof(&pps, 0.3) { if let Err(e) = lands(&o, &s, &pose_s, false, TOL) { bad.push(format!("inverse_5dof near the wrist singularity (q5 = {}): {}", e5, e)); } }
                        }
                    }
                    // previous realises the pose and is not singular => first
                    if prop == "C04" && !wrist_singular && !dof5 {
                        let s = plain.inverse_continuing(&pp, &qq);
                        if s.is_empty() || !same_mod(&s[0], &qq, 1e-5, 6) || (0..6).any(|j| (s[0][j] - qq[j]).abs() > 1e-5) { bad.push(format!("inverse_continuing: previous joints {:?} realise the pose but are not the first answer", qq)); }
                    }
                    bad
                });
                match r { Ok(b) => bad.extend(b), Err(_) => bad.push(format!("panic for joints {:?}", q)) }
            }
        }
    }
    finish(bad, tried);
}
pub fn c04(c: &Case) { if c.s("leaf") == "true" { leaf(c) } else { ik_search(c, "C04") } }
/// normalize_near through the cfg-guarded hook: out must be now + 2*pi*m and, for now in [-pi,pi] and prev in [-2pi,2pi], within pi of prev
fn leaf(c: &Case) {
    let (now, prev) = (c.f("now"), c.f("prev"));
    let out = rs_opw_kinematics::kinematics_impl::verif_hooks::normalize_near(now, prev);
    let m = (out - now) / (2.0 * PI);
    let mut bad = Vec::new();
    let flip = now.abs() == PI && out == -now;
    if (m - m.round()).abs() > 1e-9 && !flip { bad.push(format!("normalize_near({}, {}) = {} is not now + 2*pi*m (m = {})", now, prev, out, m)); }
    if m.round().abs() > 3.0 { bad.push(format!("normalize_near moved by {} turns", m)); }
    if now.abs() <= PI && prev.abs() <= 3.0 * PI && (out - prev).abs() > PI + 1e-9 { bad.push(format!("normalize_near({}, {}) = {} is farther than pi from prev", now, prev, out)); }
    if now == prev && out != now { bad.push("now == prev changed".into()); }
    if !out.is_finite() { bad.push("non-finite".into()); }
    println!("out={}", out);
    finish(bad, 1);
}
pub fn c06(c: &Case) { ik_search(c, "C06"); }
pub fn c08(c: &Case) { ik_search(c, "C08"); }

/// C02: completeness and closure of plain inverse on non-singular configurations (margins on sin q5, sin(q3+psi), wrist-centre reach)
pub fn c02(c: &Case) {
    let mut bad: Vec<String> = Vec::new(); let mut tried = 0;
    for (o, p) in robots(c) {
        let k = OPWKinematics::new(p);
        let psi = o.a2.atan2(o.c3); let kap = (o.a2 * o.a2 + o.c3 * o.c3).sqrt();
        for q in joint_battery(120, 3) {
            let g: Vec<f64> = (0..6).map(|i| q[i] * o.sign[i] - o.off[i]).collect();
            let cx1 = o.c2 * g[1].sin() + kap * (g[1] + g[2] + psi).sin() + o.a1;
            if g[4].sin().abs() < 0.05 || (g[2] + psi).sin().abs() < 0.05 || cx1.abs() < 0.05 { continue; }
            tried += 1;
            let pose = fk(&o, &q); let sols = k.inverse(&pose_of(&pose));
            if !sols.iter().any(|s| same_mod(s, &q, 1e-6, 6)) { bad.push(format!("originating configuration {:?} is not among the {} answers", q, sols.len())); }
            for (i, s) in sols.iter().enumerate() {
                let twin = [s[0], s[1], s[2], s[3] + PI * o.sign[3], -s[4] - 2.0 * o.off[4] * o.sign[4], s[5] - PI * o.sign[5]];
                let tw_geom: Vec<f64> = (0..6).map(|j| s[j] * o.sign[j] - o.off[j]).collect();
                let want = [tw_geom[0], tw_geom[1], tw_geom[2], tw_geom[3] + PI, -tw_geom[4], tw_geom[5] - PI];
                let want_j: Joints = [ (want[0] + o.off[0]) * o.sign[0], (want[1] + o.off[1]) * o.sign[1], (want[2] + o.off[2]) * o.sign[2], (want[3] + o.off[3]) * o.sign[3], (want[4] + o.off[4]) * o.sign[4], (want[5] + o.off[5]) * o.sign[5] ];
                let _ = twin;
                if !sols.iter().any(|t| same_mod(t, &want_j, 1e-6, 6)) { bad.push(format!("wrist-flipped twin of answer {:?} is missing", s)); }
                for (j2, t) in sols.iter().enumerate() { if j2 > i && same_mod(s, t, 1e-9, 6) { bad.push(format!("duplicate answers {:?}", s)); } }
                let n2 = k.inverse(&pose_of(&fk(&o, s))).len(); if n2 != sols.len() { bad.push(format!("answer set has {} elements for the pose of {:?} but {} for the pose of one of its answers", sols.len(), q, n2)); }
            }
        }
    }
    finish(bad, tried);
}
