//! Independent oracles, written from the property statements.
use std::f64::consts::PI;

/// C07: arc membership modulo 2*pi; `margin` > 0 shrinks (returns None when x is within margin of an arc end)
pub fn arc_accepts(from: f64, to: f64, x: f64, margin: f64) -> Option<bool> {
    let tau = 2.0 * PI;
    if from == to { return Some(true); }
    let w = if from < to { to - from } else {
        let mut b = to; while b < from { b += tau; } b - from };
    if w >= tau { return Some(true); }
    let d = (x - from).rem_euclid(tau);
    // distance to the arc ends (at offsets 0 and w)
    let near = |p: f64| { let q = (d - p).abs(); q.min(tau - q) };
    if near(0.0) < margin || near(w) < margin { return None; }
    Some(d <= w)
}
