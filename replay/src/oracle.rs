//! Independent oracles, written from the property statements.
use std::f64::consts::PI;

/// C07: arc membership modulo 2*pi; `margin` > 0 shrinks (returns None when x is within margin of an arc end)
pub fn arc_accepts(from: f64, to: f64, x: f64, margin: f64) -> Option<bool> {
    let tau = 2.0 * PI;
    if from == to { return Some(true); }
    let w = if from < to { to - from } else {
        let mut b = to; while b < from { b += tau; } b - from };
    if w >= tau { return Some(true); }
    let d = (x - from).rem_euclid(tau);
    // distance to the arc ends (at offsets 0 and w)
    let near = |p: f64| { let q = (d - p).abs(); q.min(tau - q) };
    if near(0.0) < margin || near(w) < margin { return None; }
    Some(d <= w)
}

// ---------------------------------------------------------------------------------------------
// Independent OPW link chain in plain f64 (no nalgebra): the reference model of C01/C03/C05/...
pub type M3 = [[f64; 3]; 3];
pub type V3 = [f64; 3];
#[derive(Clone, Copy, Debug)]
pub struct Iso { pub r: M3, pub t: V3 }
pub const I3: M3 = [[1.0, 0.0, 0.0], [0.0, 1.0, 0.0], [0.0, 0.0, 1.0]];
pub fn mm(a: &M3, b: &M3) -> M3 { let mut o = [[0.0; 3]; 3]; for i in 0..3 { for j in 0..3 { for k in 0..3 { o[i][j] += a[i][k] * b[k][j]; } } } o }
pub fn mv(a: &M3, v: &V3) -> V3 { let mut o = [0.0; 3]; for i in 0..3 { for k in 0..3 { o[i] += a[i][k] * v[k]; } } o }
pub fn tr(a: &M3) -> M3 { let mut o = [[0.0; 3]; 3]; for i in 0..3 { for j in 0..3 { o[i][j] = a[j][i]; } } o }
pub fn rz(q: f64) -> M3 { let (s, c) = q.sin_cos(); [[c, -s, 0.0], [s, c, 0.0], [0.0, 0.0, 1.0]] }
pub fn ry(q: f64) -> M3 { let (s, c) = q.sin_cos(); [[c, 0.0, s], [0.0, 1.0, 0.0], [-s, 0.0, c]] }
pub fn rx(q: f64) -> M3 { let (s, c) = q.sin_cos(); [[1.0, 0.0, 0.0], [0.0, c, -s], [0.0, s, c]] }
pub fn compose(a: &Iso, b: &Iso) -> Iso { let rt = mv(&a.r, &b.t); Iso { r: mm(&a.r, &b.r), t: [a.t[0] + rt[0], a.t[1] + rt[1], a.t[2] + rt[2]] } }
pub fn inv(a: &Iso) -> Iso { let rt = tr(&a.r); let t = mv(&rt, &a.t); Iso { r: rt, t: [-t[0], -t[1], -t[2]] } }
pub fn ident() -> Iso { Iso { r: I3, t: [0.0; 3] } }
pub fn dist(a: &V3, b: &V3) -> f64 { ((a[0] - b[0]).powi(2) + (a[1] - b[1]).powi(2) + (a[2] - b[2]).powi(2)).sqrt() }
/// rotation angle between two rotation matrices
pub fn rot_angle(a: &M3, b: &M3) -> f64 {
    let d = mm(&tr(a), b); let trc = d[0][0] + d[1][1] + d[2][2];
    // robust for small angles: use the skew part as well
    let s = 0.5 * ((d[2][1] - d[1][2]).powi(2) + (d[0][2] - d[2][0]).powi(2) + (d[1][0] - d[0][1]).powi(2)).sqrt();
    s.atan2(0.5 * (trc - 1.0))
}
pub fn det(m: &M3) -> f64 {
    m[0][0] * (m[1][1] * m[2][2] - m[1][2] * m[2][1]) - m[0][1] * (m[1][0] * m[2][2] - m[1][2] * m[2][0]) + m[0][2] * (m[1][0] * m[2][1] - m[1][1] * m[2][0])
}

#[derive(Clone, Copy, Debug)]
pub struct Opw { pub a1: f64, pub a2: f64, pub b: f64, pub c1: f64, pub c2: f64, pub c3: f64, pub c4: f64, pub off: [f64; 6], pub sign: [f64; 6] }

/// the six link frames of the OPW model: product of elementary joint transforms
pub fn chain(p: &Opw, j: &[f64; 6]) -> [Iso; 6] {
    let q: Vec<f64> = (0..6).map(|i| j[i] * p.sign[i] - p.off[i]).collect();
    let l1 = Iso { r: rz(q[0]), t: [0.0, 0.0, p.c1] };
    let l2 = compose(&l1, &Iso { r: ry(q[1]), t: [p.a1, p.b, 0.0] });
    let l3 = compose(&l2, &Iso { r: ry(q[2]), t: [0.0, 0.0, p.c2] });
    let l4 = compose(&l3, &Iso { r: rz(q[3]), t: [p.a2, 0.0, 0.0] });
    let l5 = compose(&l4, &Iso { r: ry(q[4]), t: [0.0, 0.0, p.c3] });
    let l6 = compose(&l5, &Iso { r: rz(q[5]), t: [0.0, 0.0, p.c4] });
    [l1, l2, l3, l4, l5, l6]
}
pub fn fk(p: &Opw, j: &[f64; 6]) -> Iso { chain(p, j)[5] }
