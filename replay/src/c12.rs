//! C12 native oracle: the real planner on small scenes; every clause of the property is checked on the returned path.
use crate::Case;
use crate::props::cube;
use nalgebra::{Isometry3, Translation3};
use rs_opw_kinematics::cartesian::{AnnotatedJoints, Cartesian, PathFlags, DEFAULT_TRANSITION_COSTS};
use rs_opw_kinematics::collisions::CollisionBody;
use rs_opw_kinematics::constraints::{Constraints, BY_PREV};
use rs_opw_kinematics::kinematic_traits::{Joints, Kinematics, Pose};
use rs_opw_kinematics::kinematics_with_shape::KinematicsWithShape;
use rs_opw_kinematics::parameters::opw_kinematics::Parameters;
use rs_opw_kinematics::rrt::RRTPlanner;
use rs_opw_kinematics::utils::transition_costs;

fn robot(env: Vec<CollisionBody>) -> KinematicsWithShape {
    let p = Parameters { a1: 0.15, a2: -0.11, b: 0.0, c1: 0.55, c2: 0.61, c3: 0.66, c4: 0.12, ..Parameters::new() };
    KinematicsWithShape::new(p, Constraints::new([-3.1; 6], [3.1; 6], BY_PREV),
        [cube(0.03), cube(0.03), cube(0.03), cube(0.03), cube(0.03), cube(0.02)], cube(0.05), Pose::identity(), cube(0.02), Pose::translation(0.0, 0.0, 0.1), env, true)
}
fn shifted(p: &Pose, d: [f64; 3]) -> Pose { Pose::from_parts(Translation3::new(p.translation.x + d[0], p.translation.y + d[1], p.translation.z + d[2]), p.rotation) }
fn seg_dist(p: &nalgebra::Vector3<f64>, a: &nalgebra::Vector3<f64>, b: &nalgebra::Vector3<f64>) -> f64 {
    let ab = b - a; let l2 = ab.norm_squared(); if l2 == 0.0 { return (p - a).norm(); }
    let t = ((p - a).dot(&ab) / l2).clamp(0.0, 1.0); (p - (a + ab * t)).norm()
}
fn pose_close(a: &Pose, b: &Pose) -> bool { (a.translation.vector - b.translation.vector).norm() <= 1e-6 && a.rotation.angle_to(&b.rotation) <= 1e-6 }

pub struct Scene { pub name: String, pub include: bool, pub cost: f64, pub depth: usize, pub step_m: f64, pub q_land: Joints, pub from: Joints, pub offs: Vec<[f64; 3]>, pub park_off: [f64; 3],
                   pub obstacle: f64 /* < 0 none, otherwise: at the tool when the TCP is at this fraction of the stroke polyline */, pub obstacle_h: f32, pub pools: Vec<usize>, pub default_coefs: bool, pub turn: f64 /* stroke pose k is additionally turned by k*turn about the tool axis */ }

fn polyline_point(given: &Vec<Pose>, frac: f64) -> Pose {
    // point at `frac` of the polyline through the given poses (by segment index, then linearly inside the segment)
    let nseg = given.len() - 1; let x = frac * nseg as f64; let i = (x.floor() as usize).min(nseg - 1); let t = x - i as f64;
    let a = &given[i]; let b = &given[i + 1];
    Pose::from_parts(Translation3::from(a.translation.vector.lerp(&b.translation.vector, t)), a.rotation.slerp(&b.rotation, t))
}

/// runs the planner on one scene (once per pool size) and appends the violated clauses
pub fn run_scene(sc: &Scene, bad: &mut Vec<String>) -> usize {
    let probe = robot(vec![]);
    let land = probe.forward(&sc.q_land);
    let turned = |p: Pose, k: usize| -> Pose { Pose::from_parts(p.translation, p.rotation * nalgebra::UnitQuaternion::from_axis_angle(&nalgebra::Vector3::z_axis(), sc.turn * k as f64)) };
    let s: Vec<Pose> = sc.offs.iter().enumerate().map(|(k, d)| turned(shifted(&land, *d), k + 1)).collect();
    let park = turned(shifted(&land, sc.park_off), sc.offs.len());
    let from = sc.from;
    let given: Vec<Pose> = std::iter::once(land).chain(s.iter().cloned()).chain(std::iter::once(park)).collect();
    let env = if sc.obstacle >= 0.0 {
        let at = polyline_point(&given, sc.obstacle);
        let q = probe.kinematics.inverse_continuing(&at, &sc.q_land); if q.is_empty() { return 0; }
        let t = probe.forward_with_joint_poses(&q[0])[5].translation;
        vec![CollisionBody { mesh: cube(sc.obstacle_h), pose: Isometry3::translation(t.x as f32, t.y as f32, t.z as f32) }]
    } else if sc.name == "grazing" { vec![CollisionBody { mesh: cube(0.02), pose: Isometry3::translation(land.translation.x as f32 + 0.06, land.translation.y as f32 + 0.2, land.translation.z as f32) }] }
    else { vec![CollisionBody { mesh: cube(0.05), pose: Isometry3::translation(5.0, 5.0, 5.0) }] };
    let k = robot(env);
    if std::env::var("C12_DEBUG").is_ok() { let mut q = sc.q_land; for (i, g) in given.iter().enumerate() { let sols = k.kinematics.inverse_continuing(g, &q); if sols.is_empty() { eprintln!("  given pose {} unreachable", i); break; } q = sols[0]; eprintln!("  given pose {}: collides={} details={:?}", i, k.collides(&q), k.collision_details(&q)); } }
    let cons = k.constraints().clone().expect("limits");
    let coefs: Joints = if sc.default_coefs { DEFAULT_TRANSITION_COSTS } else { [2.0, 1.5, 1.25, 0.75, 0.5, 3.0] };
    let planner = Cartesian { robot: &k, check_step_m: sc.step_m, check_step_rad: 0.05, max_transition_cost: sc.cost, transition_coefficients: coefs, linear_recursion_depth: sc.depth,
        rrt: RRTPlanner { step_size_joint_space: 0.05, max_try: 2000, debug: false }, include_linear_interpolation: sc.include, debug: std::env::var("C12_DEBUG").is_ok() };
    let mut outcomes: Vec<bool> = Vec::new(); let mut cases = 0;
    for threads in sc.pools.iter().cloned() {
        let pool = rayon::ThreadPoolBuilder::new().num_threads(threads).build().unwrap();
        let res = pool.install(|| planner.plan(&from, &land, s.clone(), &park)); cases += 1;
        outcomes.push(res.is_ok());
        let path: Vec<AnnotatedJoints> = match res { Ok(p) => p, Err(e) => { if std::env::var("C12_DEBUG").is_ok() { eprintln!("  scene {} threads {}: plan failed: {}", sc.name, threads, e); } continue } };
        let tag = format!("scene {} include={} cost={} depth={} step_m={} obstacle={} threads={}", sc.name, sc.include, sc.cost, sc.depth, sc.step_m, sc.obstacle, threads);
        if path.is_empty() { bad.push(format!("{}: empty path reported as success", tag)); continue; }
        for (i, w) in path.iter().enumerate() {
            if k.collides(&w.joints) { bad.push(format!("{}: waypoint {} of {} collides (flags {:#x})", tag, i, path.len(), w.flags.bits())); break; }
        }
        for (i, w) in path.iter().enumerate() { if !cons.compliant(&w.joints) { bad.push(format!("{}: waypoint {} outside the joint limits: {:?} flags {:#x} (previous {:?})", tag, i, w.joints, w.flags.bits(), if i > 0 { path[i - 1].joints } else { [0.0; 6] })); if std::env::var("C12_DEBUG").is_ok() { for (n, x) in path.iter().enumerate() { if !cons.compliant(&x.joints) { eprintln!("  noncompliant {} {:?} {:#x}", n, x.joints, x.flags.bits()); } } eprintln!("  from {:?} land-solution {:?}", from, path.iter().find(|x| x.flags.contains(PathFlags::LAND)).map(|x| x.joints)); } break; } }
        if path[0].joints != from { bad.push(format!("{}: the path does not begin at the given start configuration (first waypoint {:?}, flags {:#x})", tag, path[0].joints, path[0].flags.bits())); }
        // order and flags of the given poses
        let land_at = path.iter().position(|w| w.flags.contains(PathFlags::LAND) && !w.flags.contains(PathFlags::LIN_INTERP));
        match land_at {
            None => bad.push(format!("{}: no LAND waypoint", tag)),
            Some(l0) => {
                let mut idx = 0usize; // index into `given` of the last given pose passed
                if !pose_close(&k.forward(&path[l0].joints), &given[0]) { bad.push(format!("{}: the LAND waypoint does not reproduce the landing pose", tag)); }
                for i in 0..l0 { if path[i].flags.intersects(PathFlags::ORIGINAL | PathFlags::LIN_INTERP) { bad.push(format!("{}: waypoint {} before LAND carries stroke flags {:#x}", tag, i, path[i].flags.bits())); break; } }
                for i in (l0 + 1)..path.len() {
                    let w = &path[i]; let fk = k.forward(&w.joints);
                    let interp = w.flags.contains(PathFlags::LIN_INTERP);
                    if interp && !sc.include { bad.push(format!("{}: interpolated waypoint {} present although include_linear_interpolation = false", tag, i)); break; }
                    if !interp && w.flags.intersects(PathFlags::ORIGINAL) {
                        idx += 1;
                        if idx >= given.len() { bad.push(format!("{}: more LAND/TRACE/PARK waypoints than given poses", tag)); break; }
                        let want = if idx == given.len() - 1 { PathFlags::PARK } else { PathFlags::TRACE };
                        if (w.flags & PathFlags::ORIGINAL).bits() != want.bits() { bad.push(format!("{}: waypoint {} flagged {:#x} where given pose {} was expected", tag, i, w.flags.bits(), idx)); break; }
                        if !pose_close(&fk, &given[idx]) { bad.push(format!("{}: waypoint {} flagged {:#x} does not reproduce given pose {}", tag, i, w.flags.bits(), idx)); break; }
                    } else if interp {
                        // a waypoint carrying LAND/TRACE/PARK claims to be a given pose, also when it carries LIN_INTERP besides
                        if w.flags.intersects(PathFlags::ORIGINAL) && !given.iter().any(|g| pose_close(&fk, g)) { bad.push(format!("{}: waypoint {} flagged {:#x} (a given-pose flag) reproduces none of the given poses", tag, i, w.flags.bits())); break; }
                        if idx + 1 >= given.len() { bad.push(format!("{}: interpolated waypoint after PARK", tag)); break; }
                        let d = seg_dist(&fk.translation.vector, &given[idx].translation.vector, &given[idx + 1].translation.vector);
                        if d > 1e-6 { bad.push(format!("{}: interpolated waypoint {} is {:.3e} m off the straight segment between given poses {} and {}", tag, i, d, idx, idx + 1)); break; }
                    }
                    // Cartesian continuity: both ends are stroke waypoints (a waypoint without stroke flags belongs to an RRT relocation)
                    let stroke = |f: PathFlags| f.intersects(PathFlags::ORIGINAL | PathFlags::LIN_INTERP);
                    if sc.include && stroke(w.flags) && stroke(path[i - 1].flags) {
                        let cst = transition_costs(&path[i - 1].joints, &w.joints, &coefs);
                        if cst > sc.cost + 1e-12 { bad.push(format!("{}: Cartesian step {} -> {} costs {:.4} > max_transition_cost {:.4}", tag, i - 1, i, cst, sc.cost)); break; }
                    }
                }
                if idx != given.len() - 1 { bad.push(format!("{}: only {} of the {} given poses after LAND appear", tag, idx, given.len() - 1)); }
                if !path.last().unwrap().flags.contains(PathFlags::PARK) { bad.push(format!("{}: the last waypoint is not PARK", tag)); }
            }
        }
    }
    if sc.name != "random" { println!("note=scene {} include={} outcomes={:?}", sc.name, sc.include, outcomes); }
    if outcomes.iter().any(|o| *o) { SUCC.fetch_add(1, std::sync::atomic::Ordering::Relaxed); }
    if sc.obstacle < 0.0 && outcomes.iter().any(|o| *o != outcomes[0]) { bad.push(format!("scene {} (no obstacle on the stroke): success depends on the pool size / run: {:?}", sc.name, outcomes)); }
    if sc.name == "free" && !outcomes[0] { bad.push("scene free: planning fails in an empty cell (vacuous battery)".into()); }
    cases
}

static SUCC: std::sync::atomic::AtomicUsize = std::sync::atomic::AtomicUsize::new(0);
struct Lcg(u64);
impl Lcg { fn next(&mut self) -> f64 { self.0 = self.0.wrapping_mul(6364136223846793005).wrapping_add(1442695040888963407); ((self.0 >> 11) as f64) / ((1u64 << 53) as f64) }
           fn pick<T: Copy>(&mut self, v: &[T]) -> T { v[((self.next() * v.len() as f64) as usize).min(v.len() - 1)] } }

pub fn c12(c: &Case) {
    let mut bad: Vec<String> = Vec::new(); let mut cases = 0;
    let want = c.s("scene");
    let base = |name: &str, include: bool, cost: f64, depth: usize, step_m: f64, obstacle: f64, h: f32| Scene { name: name.to_string(), include, cost, depth, step_m, q_land: [0.2, 0.3, -0.2, 0.4, 0.8, -0.3], from: [0.5, 0.1, -0.1, 0.4, 0.8, -0.3],
        offs: vec![[0.0, 0.0, -0.05], [0.06, 0.0, -0.05], [0.06, 0.06, -0.05]], park_off: [0.06, 0.06, 0.0], obstacle, obstacle_h: h, pools: vec![1, 4, 2], default_coefs: false, turn: 0.0 };
    let all = [base("free", true, 0.2, 6, 0.02, -1.0, 0.0), base("free", false, 0.2, 6, 0.02, -1.0, 0.0), base("grazing", true, 0.2, 6, 0.02, -1.0, 0.0),
               base("blocking", true, 0.2, 6, 0.02, 0.5, 0.02), base("midway", true, 0.2, 6, 0.01, 0.375, 0.008), base("midway", false, 0.2, 6, 0.01, 0.375, 0.008),
               base("rrtclose", true, 1e-4, 0, 0.05, -1.0, 0.0), base("bisect", true, 0.012, 6, 0.05, -1.0, 0.0),
               // coarse steps: the first waypoint after LAND is the first stroke pose itself, and only that one touches a small body
               Scene { offs: vec![[0.0, 0.0, -0.09], [0.09, 0.0, -0.09], [0.09, 0.09, -0.09]], park_off: [0.09, 0.2, -0.09], ..base("firststep", true, 2.0, 6, 0.1, 0.25, 0.02) },
               Scene { offs: vec![[0.0, 0.0, -0.09], [0.09, 0.0, -0.09], [0.09, 0.09, -0.09]], park_off: [0.09, 0.2, -0.09], ..base("firststep", false, 2.0, 6, 0.1, 0.25, 0.02) },
               // the tool re-orients faster than it moves: the rotation decides the number of interpolated poses
               Scene { turn: 0.35, ..base("reorient", true, 0.3, 6, 0.02, -1.0, 0.0) }, Scene { turn: 0.6, ..base("reorient", true, 0.3, 6, 0.05, -1.0, 0.0) },
               // the landing solution continued from the start is an equivalent angle BELOW the lower limit of J1 (2.9 - 2 pi): a straight relocation would cross the forbidden gap
               Scene { q_land: [2.9, 0.3, -0.2, 0.4, 0.8, -0.3], from: [-2.9, 0.3, -0.2, 0.4, 0.8, -0.3], ..base("limits", true, 0.2, 6, 0.02, -1.0, 0.0) }];
    for sc in all.iter() {
        if !want.is_empty() && want != sc.name { continue; }
        if let Some(inc) = c.vo("include") { if (inc[0] != 0.0) != sc.include { continue; } }
        cases += run_scene(sc, &mut bad);
    }
    if want.is_empty() || want == "random" {
        let mut r = Lcg(0x9E3779B97F4A7C15 ^ (c.fo("seed", 0.0) as u64).wrapping_mul(0x2545F4914F6CDD1D)); let n = c.fo("n", 60.0) as usize;
        let mut ok = 0;
        for _ in 0..n {
            let ql: Joints = [r.next() * 1.0 - 0.5, 0.1 + r.next() * 0.5, -0.4 + r.next() * 0.4, -0.6 + r.next() * 1.2, 0.5 + r.next() * 0.7, -0.5 + r.next()];
            let mut from = ql; for j in 0..6 { from[j] += (r.next() - 0.5) * 0.6; }
            let nst = 1 + (r.next() * 3.0) as usize; let mut offs = Vec::new(); let mut cur = [0.0, 0.0, -0.04];
            for _ in 0..nst { offs.push(cur); cur = [cur[0] + (r.next() - 0.5) * 0.3, cur[1] + (r.next() - 0.5) * 0.3, cur[2]]; }
            let last = *offs.last().unwrap();
            let include = match c.vo("include") { Some(v) => v[0] != 0.0, None => r.next() < 0.6 };
            let sc = Scene { name: "random".to_string(), include, cost: r.pick(&[0.01, 0.03, 0.1, 0.3]), depth: r.pick(&[0usize, 1, 3, 6]), step_m: r.pick(&[0.01, 0.03, 0.1, 0.5]),
                q_land: ql, from, offs, park_off: [last[0], last[1], 0.0], obstacle: if r.next() < 0.35 { -1.0 } else { r.pick(&[0.05f64, 0.25, 0.5, 0.75]) + r.next() * 0.2 }, obstacle_h: r.pick(&[0.008f32, 0.02]), pools: vec![r.pick(&[1usize, 3])], default_coefs: r.next() < 0.3, turn: r.pick(&[0.0, 0.0, 0.2, 0.5]) };
            let before = bad.len(); cases += run_scene(&sc, &mut bad); if bad.len() == before { ok += 1; }
        }
        println!("note=random scenes without finding {} ; scenes (all kinds) in which planning succeeded {}", ok, SUCC.load(std::sync::atomic::Ordering::Relaxed));
    }
    println!("native_cases={}", cases); bad.dedup(); for b in bad.iter().take(8) { println!("diff={}", b); } println!("reproduced={}", !bad.is_empty());
}
