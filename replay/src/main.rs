//! Native replay of solver counterexamples against the real crate, with oracles written
//! against the property text (not against the code). Usage: replay <PROPERTY> key=v1,v2,... ...
//! Prints `reproduced=true|false` plus details; exit 0 always unless arguments are malformed.
use std::collections::HashMap;
use std::f64::consts::PI;

mod oracle;
mod props;
mod battery;
mod ikprops;
mod c12;
mod c20;

pub struct Case(pub HashMap<String, Vec<f64>>, pub HashMap<String, String>);
impl Case {
    pub fn f(&self, k: &str) -> f64 { self.0.get(k).and_then(|v| v.get(0)).copied().unwrap_or_else(|| panic!("missing {}", k)) }
    pub fn fo(&self, k: &str, d: f64) -> f64 { self.0.get(k).and_then(|v| v.get(0)).copied().unwrap_or(d) }
    pub fn v(&self, k: &str) -> Vec<f64> { self.0.get(k).cloned().unwrap_or_else(|| panic!("missing {}", k)) }
    pub fn vo(&self, k: &str) -> Option<Vec<f64>> { self.0.get(k).cloned() }
    pub fn a6(&self, k: &str) -> [f64; 6] { let v = self.v(k); [v[0], v[1], v[2], v[3], v[4], v[5]] }
    pub fn s(&self, k: &str) -> String { self.1.get(k).cloned().unwrap_or_default() }
}

fn parse_f(s: &str) -> Option<f64> {
    match s { "nan" | "NaN" => Some(f64::NAN), "inf" => Some(f64::INFINITY), "-inf" => Some(f64::NEG_INFINITY), _ => s.parse().ok() }
}

fn main() {
    let args: Vec<String> = std::env::args().collect();
    if args.len() < 2 { eprintln!("usage: replay <PROPERTY> k=v ..."); std::process::exit(3); }
    let mut nums = HashMap::new(); let mut strs = HashMap::new();
    for a in &args[2..] {
        if let Some((k, v)) = a.split_once('=') {
            let parts: Vec<Option<f64>> = v.split(',').map(parse_f).collect();
            if parts.iter().all(|p| p.is_some()) { nums.insert(k.to_string(), parts.into_iter().map(|p| p.unwrap()).collect()); }
            strs.insert(k.to_string(), v.to_string());
        }
    }
    let case = Case(nums, strs);
    let _ = PI;
    props::run(&args[1], &case);
}
