//! Native search batteries for the IK properties (C01, C02, C04, C06, C08): deterministic pseudo-random and special
//! configurations pushed through the REAL entry points, judged by oracles written from the property text.
use crate::oracle::*;
use crate::Case;
use crate::props::{opw_of, pose_of, iso_of};
use rs_opw_kinematics::kinematic_traits::{Kinematics, Joints, Pose, CONSTRAINT_CENTERED};
use rs_opw_kinematics::kinematics_impl::OPWKinematics;
use rs_opw_kinematics::constraints::Constraints;
use std::f64::consts::PI;

pub struct Lcg(pub u64);
impl Lcg {
    pub fn next(&mut self) -> f64 { self.0 = self.0.wrapping_mul(6364136223846793005).wrapping_add(1442695040888963407); ((self.0 >> 11) as f64) / ((1u64 << 53) as f64) }
    pub fn range(&mut self, lo: f64, hi: f64) -> f64 { lo + (hi - lo) * self.next() }
}

pub fn robots(c: &Case) -> Vec<(Opw, rs_opw_kinematics::parameters::opw_kinematics::Parameters)> {
    let mut out = Vec::new();
    let (o, p) = opw_of(c); out.push((o, p));
    if c.vo("params").is_none() {
        // a few more geometries with the same sign/offset convention: b = 0, a1 = 0, larger a2, different proportions
        for g in [[0.15, -0.11, 0.0, 0.55, 0.61, 0.66, 0.12], [0.0, -0.2, 0.03, 0.4, 0.5, 0.45, 0.1], [0.32, 0.2, -0.04, 0.78, 1.075, 1.142, 0.2], [0.025, -0.035, 0.0, 0.4, 0.455, 0.42, 0.08],
                  // shoulder offset pointing backwards (a1 < 0): the wrist centre can lie between the J1 and J2 axes
                  [-0.2, -0.11, 0.0, 0.55, 0.61, 0.66, 0.12], [-0.15, 0.1, 0.02, 0.5, 0.7, 0.6, 0.1]] {
            let mut o2 = o; let mut p2 = p;
            o2.a1 = g[0]; o2.a2 = g[1]; o2.b = g[2]; o2.c1 = g[3]; o2.c2 = g[4]; o2.c3 = g[5]; o2.c4 = g[6];
            p2.a1 = g[0]; p2.a2 = g[1]; p2.b = g[2]; p2.c1 = g[3]; p2.c2 = g[4]; p2.c3 = g[5]; p2.c4 = g[6];
            out.push((o2, p2));
        }
    }
    out
}

pub fn joint_battery(n: usize, seed: u64) -> Vec<[f64; 6]> {
    let mut r = Lcg(seed.wrapping_mul(77) + 12345); let mut v = Vec::new();
    for _ in 0..n { v.push([r.range(-3.0, 3.0), r.range(-1.8, 1.8), r.range(-2.2, 2.2), r.range(-3.0, 3.0), r.range(-2.0, 2.0), r.range(-3.0, 3.0)]); }
    // special: wrist singular (J5 = 0), nearly singular, stretched elbow, J5 = pi/2, zeros
    v.push([0.4, 0.3, -0.2, 0.5, 0.0, -0.7]); v.push([0.4, 0.3, -0.2, 0.5, 1e-7, -0.7]); v.push([0.0; 6]); v.push([1.0, 0.5, 0.3, 0.0, PI / 2.0, 0.0]);
    v.push([-2.0, 1.2, -1.4, 2.9, -1.2, 3.0]); v.push([3.0, -0.4, 0.9, -3.0, 0.8, -3.1]);
    v
}

pub fn tool_axis(i: &Iso) -> V3 { [i.r[0][2], i.r[1][2], i.r[2][2]] }
pub fn axis_angle(a: &V3, b: &V3) -> f64 {
    let cr = [a[1] * b[2] - a[2] * b[1], a[2] * b[0] - a[0] * b[2], a[0] * b[1] - a[1] * b[0]];
    let s = (cr[0] * cr[0] + cr[1] * cr[1] + cr[2] * cr[2]).sqrt(); let d = a[0] * b[0] + a[1] * b[1] + a[2] * b[2]; s.atan2(d)
}

/// does joint vector s land on `pose` through the independent chain? (6-DOF: full pose, 5-DOF: tool point and tool axis)
pub fn lands(o: &Opw, s: &[f64; 6], pose: &Iso, full: bool, tol: f64) -> Result<(), String> {
    if !s.iter().all(|x| x.is_finite()) { return Err(format!("non-finite answer {:?}", s)); }
    let f = fk(o, s);
    let dt = dist(&f.t, &pose.t);
    if !(dt <= tol) { return Err(format!("answer {:?} misses the position by {:e}", s, dt)); }
    if full { let dr = rot_angle(&f.r, &pose.r).abs(); if !(dr <= tol) { return Err(format!("answer {:?} misses the orientation by {:e}", s, dr)); } }
    else { let da = axis_angle(&tool_axis(&f), &tool_axis(pose)); if !(da <= 1e-5) { return Err(format!("5-DOF answer {:?} misses the tool axis by {:e}", s, da)); } }
    Ok(())
}

pub fn constraints_of(c: &Case) -> Option<Constraints> {
    match (c.vo("cfrom"), c.vo("cto")) {
        (Some(f), Some(t)) => Some(Constraints::new([f[0], f[1], f[2], f[3], f[4], f[5]], [t[0], t[1], t[2], t[3], t[4], t[5]], c.fo("weight", 0.0))),
        _ => None }
}
